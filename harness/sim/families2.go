package sim

import (
	"archive/tar"
	"bytes"
	"context"
	"crypto/ecdsa"
	"crypto/sha256"
	"encoding/binary"
	"fmt"
	"strings"
	"time"

	"filippo.io/mldsa"
	"filippo.io/sunlight"
	"filippo.io/sunlight/verifharness/certs"
	"filippo.io/torchwood"
	"golang.org/x/mod/sumdb/note"
	"golang.org/x/mod/sumdb/tlog"
)

// SignCP signs an arbitrary tree head the way the log does (RFC 6962 signature
// injected into a note plus the ML-DSA cosignature), through public APIs only.
// The harness uses it to build start-up states and tampered checkpoints.
func SignCP(name string, key *ecdsa.PrivateKey, wkey *mldsa.PrivateKey, n int64, root Hash, ts int64) ([]byte, error) {
	var in bytes.Buffer
	in.Write([]byte{0, 1})
	binary.Write(&in, binary.BigEndian, uint64(ts))
	binary.Write(&in, binary.BigEndian, uint64(n))
	in.Write(root[:])
	d := sha256.Sum256(in.Bytes())
	sig, err := key.Sign(nil, d[:], nil)
	if err != nil {
		return nil, err
	}
	ths := append([]byte{4, 3, byte(len(sig) >> 8), byte(len(sig))}, sig...)
	rs, err := sunlight.NewRFC6962InjectedSigner(name, key.Public(), ths, ts)
	if err != nil {
		return nil, err
	}
	ws, err := torchwood.NewCosignatureSigner(name, wkey)
	if err != nil {
		return nil, err
	}
	return note.Sign(&note.Note{Text: sunlight.FormatCheckpoint(sunlight.Checkpoint{Origin: name, Tree: tlog.Tree{N: n, Hash: tlog.Hash(root)}})}, rs, ws)
}

// FamilyInstances: two instances loaded from the same checkpoint, each with its
// own pool, run a round each. B's whole round is placed at every point of A's
// round (and the reverse), plus seeded random interleavings.
func FamilyInstances(r *Runner) {
	type cfg struct {
		sh     shape
		na, nb int
	}
	cfgs := []cfg{{shape{0, 0}, 1, 1}, {shape{254, 0}, 2, 1}, {shape{0, 0}, 0, 1}, {shape{254, 0}, 1, 0}}
	if r.Thorough() {
		cfgs = append(cfgs, cfg{shape{0, 0}, 2, 2}, cfg{shape{255, 0}, 1, 2}, cfg{shape{0, 0}, 0, 0}, cfg{shape{256, 0}, 2, 0})
	}
	for _, c := range cfgs {
		prep := func(w *World) (a, b *Inc, sa, sb []*Sub, ea, eb []*Entry, err error) {
			a, err = Setup(w, c.sh.base, 0)
			if err != nil {
				return
			}
			w.Gate(false)
			b = w.NewInc("B")
			if err = b.Load(map[string]bool{"faultFree": true, "untampered": true, "clockOk": true}); err != nil {
				err = fmt.Errorf("second instance load: %w", err)
				return
			}
			w.Gate(true)
			ea = newEntries(w, "a", c.na)
			eb = newEntries(w, "b", c.nb)
			sa = submitAll(w, a, ea)
			sb = submitAll(w, b, eb)
			w.Quiesce()
			return
		}
		var nA, nB int
		name := fmt.Sprintf("instances/%s/a%d-b%d", c.sh, c.na, c.nb)
		r.Scenario(name+"/dry", true, func(w *World) error {
			a, b, _, _, _, _, err := prep(w)
			if err != nil {
				return err
			}
			ta := w.Go("roundA", a.Round)
			opsA, _ := w.DryRun(a, ta)
			nA = len(opsA)
			tb := w.Go("roundB", b.Round)
			opsB, _ := w.DryRun(b, tb)
			nB = len(opsB)
			w.Quiesce()
			return nil
		})
		finish := func(w *World, a, b *Inc, ta, tb *Task, sa, sb []*Sub, ea, eb []*Entry) error {
			w.Quiesce()
			var loser []*Entry
			if ta.Err != nil {
				w.Check("noneAcked", sa...)
				loser = append(loser, ea...)
			}
			if tb.Err != nil {
				w.Check("noneAcked", sb...)
				loser = append(loser, eb...)
			}
			w.Check("allDone", append(append([]*Sub{}, sa...), sb...)...)
			w.Crash(a)
			w.Crash(b)
			_, err := Recover(w, "A", loser, "i")
			return err
		}
		// B's round entirely at step k of A's round, and the reverse
		for _, first := range []string{"A", "B"} {
			n := nA
			if first == "B" {
				n = nB
			}
			for k := 0; k <= n; k++ {
				r.Scenario(fmt.Sprintf("%s/%s-pauses-at-%d", name, first, k), false, func(w *World) error {
					a, b, sa, sb, ea, eb, err := prep(w)
					if err != nil {
						return err
					}
					x, y := a, b
					if first == "B" {
						x, y = b, a
					}
					tx := w.Go("roundX", x.Round)
					w.RunSteps(x, tx, k)
					ty := w.Go("roundY", y.Round)
					if !w.FinishTask(y, ty) {
						return fmt.Errorf("second round stuck")
					}
					if !w.FinishTask(x, tx) {
						return fmt.Errorf("first round stuck")
					}
					ta, tb := tx, ty
					if first == "B" {
						ta, tb = ty, tx
					}
					return finish(w, a, b, ta, tb, sa, sb, ea, eb)
				})
			}
		}
		nr := 12
		if r.Thorough() {
			nr = 150
		}
		for i := 0; i < nr; i++ {
			sd := r.Rand.Int63()
			r.Scenario(fmt.Sprintf("%s/random-%d", name, i), false, func(w *World) error {
				a, b, sa, sb, ea, eb, err := prep(w)
				if err != nil {
					return err
				}
				rng := newRand(sd)
				ta := w.Go("roundA", a.Round)
				tb := w.Go("roundB", b.Round)
				for j := 0; j < 10000; j++ {
					w.Settle()
					p := w.Pending()
					if len(p) == 0 {
						break
					}
					w.Release(p[rng.Intn(len(p))], OK)
				}
				if !w.IsDone(ta) || !w.IsDone(tb) {
					return fmt.Errorf("rounds stuck")
				}
				return finish(w, a, b, ta, tb, sa, sb, ea, eb)
			})
		}
	}

	// A stale instance: B commits and stalls before publishing; A is restarted,
	// commits and publishes a newer head; B's upload lands afterwards.
	for _, nb := range []int{0, 1} {
		r.Scenario(fmt.Sprintf("instances/stale-publish/b%d", nb), false, func(w *World) error {
			a, err := Setup(w, 0, 0)
			if err != nil {
				return err
			}
			w.Gate(false)
			b := w.NewInc("B")
			if err := b.Load(map[string]bool{"faultFree": true, "untampered": true, "clockOk": true}); err != nil {
				return err
			}
			w.Gate(true)
			submitAll(w, b, newEntries(w, "b", nb))
			tb := w.Go("roundB", b.Round)
			op := w.DriveUntil(tb, func(p []*Op) *Op {
				for _, o := range p {
					if o.Inc == b && o.Kind == "Upload" && o.Key == "checkpoint" {
						return o
					}
				}
				return nil
			})
			if op == nil {
				return fmt.Errorf("B never reached its checkpoint upload")
			}
			// the operator restarts A, which now loads B's committed head
			w.Crash(a)
			a2 := w.NewInc("A")
			tl := w.Go("loadA", func() error { return a2.Load(map[string]bool{"faultFree": true, "untampered": true, "clockOk": true}) })
			if !w.FinishTask(a2, tl) || tl.Err != nil {
				return nil
			}
			sa := submitAll(w, a2, newEntries(w, "a", 1))
			ta := w.Go("roundA", a2.Round)
			if !w.FinishTask(a2, ta) {
				return fmt.Errorf("A's round stuck")
			}
			w.Check("allDone", sa...)
			w.NoteEv("stale upload lands")
			w.Release(op, OK)
			w.FinishTask(b, tb)
			w.Quiesce()
			return nil
		})
	}

	// An instance starting up (LoadLog paused after k operations) while the
	// running instance sequences and publishes a round; then both go on.
	for _, base := range []int{0, 254} {
		var nl int
		r.Scenario(fmt.Sprintf("instances/load-race/b%d/dry", base), true, func(w *World) error {
			if _, err := Setup(w, base, 0); err != nil {
				return err
			}
			b := w.NewInc("B")
			t := w.Go("loadB", func() error { return b.Load(map[string]bool{"untampered": true, "clockOk": true, "faultFree": true}) })
			ops, _ := w.DryRun(b, t)
			nl = len(ops)
			return nil
		})
		for k := 0; k <= nl; k++ {
			for _, na := range []int{0, 2} {
				r.Scenario(fmt.Sprintf("instances/load-race/b%d/at%d/a%d", base, k, na), false, func(w *World) error {
					a, err := Setup(w, base, 0)
					if err != nil {
						return err
					}
					b := w.NewInc("B")
					tl := w.Go("loadB", func() error { return b.Load(map[string]bool{"untampered": true, "clockOk": true, "faultFree": true}) })
					w.RunSteps(b, tl, k)
					sa := submitAll(w, a, newEntries(w, "a", na))
					ta := w.Go("roundA", a.Round)
					if !w.FinishTask(a, ta) {
						return fmt.Errorf("A's round stuck")
					}
					w.Check("allDone", sa...)
					if !w.FinishTask(b, tl) {
						return fmt.Errorf("B's load stuck")
					}
					w.Quiesce()
					if tl.Err != nil {
						return nil
					}
					sb := submitAll(w, b, newEntries(w, "b", 1))
					tb := w.Go("roundB", b.Round)
					w.FinishTask(b, tb)
					sa2 := submitAll(w, a, newEntries(w, "a2", 1))
					ta2 := w.Go("roundA2", a.Round)
					w.FinishTask(a, ta2)
					w.Check("allDone", append(sb, sa2...)...)
					w.Crash(a)
					w.Crash(b)
					_, err = Recover(w, "A", nil, "lr")
					return err
				})
			}
		}
	}

	// CreateLog over an existing log, and two concurrent CreateLogs
	r.Scenario("instances/create-over-existing", false, func(w *World) error {
		if _, err := Setup(w, 0, 0); err != nil {
			return err
		}
		w.Gate(false)
		c := w.NewInc("C")
		c.Create()
		w.Tamper("checkpoint", nil, "delete")
		c2 := w.NewInc("D")
		c2.Create()
		w.Quiesce()
		return nil
	})
	for k := 0; k <= 4; k++ {
		// the second creator finishes, and the log is even started and used,
		// before the first creator (paused after k operations) goes on
		r.Scenario(fmt.Sprintf("instances/create-race-used-%d", k), false, func(w *World) error {
			w.Gate(true)
			a, b := w.NewInc("A"), w.NewInc("B")
			ta := w.Go("createA", a.Create)
			w.RunSteps(a, ta, k)
			tb := w.Go("createB", b.Create)
			w.FinishTask(b, tb)
			w.Gate(false)
			var subs []*Sub
			if tb.Err == nil {
				b2 := w.NewInc("B")
				if err := b2.Load(map[string]bool{"untampered": true, "clockOk": true, "faultFree": true}); err == nil {
					subs = append(subs, b2.Submit(w.SynthEntry("u1", false, "X"), false), b2.Submit(w.SynthEntry("u2", true), false))
					w.Settle()
					b2.Round()
					w.Settle()
				}
			}
			w.Gate(true)
			w.FinishTask(a, ta)
			w.Quiesce()
			w.Gate(false)
			c := w.NewInc("C")
			if err := c.Load(map[string]bool{"untampered": true, "clockOk": true, "faultFree": true}); err != nil {
				return nil
			}
			subs = append(subs, c.Submit(w.SynthEntry("u3", false), false))
			w.Settle()
			c.Round()
			w.Check("allDone", subs...)
			return nil
		})
	}
	for k := 0; k <= 4; k++ {
		r.Scenario(fmt.Sprintf("instances/create-race-%d", k), false, func(w *World) error {
			w.Gate(true)
			a, b := w.NewInc("A"), w.NewInc("B")
			ta := w.Go("createA", a.Create)
			w.RunSteps(a, ta, k)
			tb := w.Go("createB", b.Create)
			w.FinishTask(b, tb)
			w.FinishTask(a, ta)
			w.Quiesce()
			w.Gate(false)
			a2 := w.NewInc("A")
			if err := a2.Load(map[string]bool{"untampered": true, "clockOk": true, "exclusive": true}); err != nil {
				return nil
			}
			s := a2.Submit(w.SynthEntry("x", false), false)
			a2.Round()
			w.Check("allDone", s)
			return nil
		})
	}
}

// FamilyStartup: the start-up states in which an instance must refuse to load.
func FamilyStartup(r *Runner) {
	type st struct {
		name string
		prep func(w *World, a *Inc) *Inc // returns the incarnation to load
	}
	grow := func(w *World, a *Inc, tag string, n int) {
		w.Gate(false)
		for _, e := range newEntries(w, tag, n) {
			a.Submit(e, false)
		}
		w.Settle()
		a.Round()
		w.Settle()
	}
	states := []st{
		{"clean", func(w *World, a *Inc) *Inc { grow(w, a, "x", 2); w.Crash(a); return w.NewInc("A") }},
		{"storage-ahead", func(w *World, a *Inc) *Inc {
			old := w.LockValue()
			grow(w, a, "x", 2)
			w.Crash(a)
			w.SetLock(w.Key, old)
			return w.NewInc("A")
		}},
		{"same-size-other-root", func(w *World, a *Inc) *Inc {
			grow(w, a, "x", 2)
			w.Crash(a)
			cpb, _ := w.Object("checkpoint")
			p := ParseCP(cpb, w.Name, &w.Key.PublicKey, w)
			forged, _ := SignCP(w.Name, w.Key, w.WitnessKey, p.N, sha256.Sum256([]byte("other root")), p.Ts)
			w.Tamper("checkpoint", forged, "fork")
			return w.NewInc("A")
		}},
		{"lock-other-root", func(w *World, a *Inc) *Inc {
			grow(w, a, "x", 2)
			w.Crash(a)
			p := ParseCP(w.LockValue(), w.Name, &w.Key.PublicKey, w)
			forged, _ := SignCP(w.Name, w.Key, w.WitnessKey, p.N, sha256.Sum256([]byte("other root")), p.Ts)
			w.SetLock(w.Key, forged)
			return w.NewInc("A")
		}},
		{"foreign-key-instance", func(w *World, a *Inc) *Inc {
			grow(w, a, "x", 1)
			w.Crash(a)
			b := w.NewInc("A")
			b.Cfg.Key = OtherKey()
			// a misconfigured key looks up another log id: give that id this log's state
			w.SetLock(OtherKey(), w.LockValue())
			return b
		}},
		{"foreign-name-instance", func(w *World, a *Inc) *Inc {
			grow(w, a, "x", 1)
			w.Crash(a)
			b := w.NewInc("A")
			b.Cfg.Name = OtherName
			return b
		}},
		{"published-signed-by-other-key", func(w *World, a *Inc) *Inc {
			grow(w, a, "x", 1)
			w.Crash(a)
			p := ParseCP(w.LockValue(), w.Name, &w.Key.PublicKey, w)
			forged, _ := SignCP(w.Name, OtherKey(), w.WitnessKey, p.N, p.Root, p.Ts)
			w.Tamper("checkpoint", forged, "resign")
			return w.NewInc("A")
		}},
		{"lock-signed-by-other-key", func(w *World, a *Inc) *Inc {
			grow(w, a, "x", 1)
			w.Crash(a)
			p := ParseCP(w.LockValue(), w.Name, &w.Key.PublicKey, w)
			forged, _ := SignCP(w.Name, OtherKey(), w.WitnessKey, p.N, p.Root, p.Ts)
			w.SetLock(w.Key, forged)
			return w.NewInc("A")
		}},
		{"published-other-origin", func(w *World, a *Inc) *Inc {
			grow(w, a, "x", 1)
			w.Crash(a)
			p := ParseCP(w.LockValue(), w.Name, &w.Key.PublicKey, w)
			forged, _ := SignCP(OtherName, w.Key, w.WitnessKey, p.N, p.Root, p.Ts)
			w.Tamper("checkpoint", forged, "rename")
			return w.NewInc("A")
		}},
		{"published-missing", func(w *World, a *Inc) *Inc {
			grow(w, a, "x", 1)
			w.Crash(a)
			w.Tamper("checkpoint", nil, "delete")
			return w.NewInc("A")
		}},
		{"published-older-bundle-missing", func(w *World, a *Inc) *Inc {
			oldPub, _ := w.Object("checkpoint")
			grow(w, a, "x", 2)
			w.Crash(a)
			w.Tamper("checkpoint", oldPub, "rollback")
			return w.NewInc("A")
		}},
	}
	for _, base := range []int{0, 254} {
		for _, s := range states {
			r.Scenario(fmt.Sprintf("startup/b%d/%s", base, s.name), false, func(w *World) error {
				a, err := Setup(w, base, 0)
				if err != nil {
					return err
				}
				b := s.prep(w, a)
				w.Gate(false)
				fl := map[string]bool{"faultFree": true, "clockOk": true, "exclusive": true, "untampered": s.name == "clean"}
				if err := b.Load(fl); err != nil {
					w.Quiesce()
					return nil
				}
				sub := b.Submit(w.SynthEntry("after", false, "Q"), false)
				w.Settle()
				b.Round()
				w.Check("allDone", sub)
				return nil
			})
		}
	}
}

// FamilyDedup: duplicates of pending, in-sequencing and acknowledged entries
// submitted at every point of a round; failed rounds followed by resubmission;
// cache loss; certificate and precertificate with equal bytes.
func FamilyDedup(r *Runner) {
	bases := []int{0, 254}
	for _, base := range bases {
		var ops []OpInfo
		r.Scenario(fmt.Sprintf("dedup/b%d/dry", base), true, func(w *World) error {
			a, err := Setup(w, base, 0)
			if err != nil {
				return err
			}
			submitAll(w, a, newEntries(w, "n", 2))
			t := w.Go("round", a.Round)
			ops, _ = w.DryRun(a, t)
			return nil
		})
		for k := 0; k <= len(ops); k++ {
			r.Scenario(fmt.Sprintf("dedup/b%d/dup-at-step%d", base, k), false, func(w *World) error {
				a, err := Setup(w, base, 0)
				if err != nil {
					return err
				}
				es := newEntries(w, "n", 2)
				subs := submitAll(w, a, es)
				d0 := w.SubmitDriven(a, es[0], false) // duplicate in the same pool
				t := w.Go("round", a.RoundMust)
				w.RunSteps(a, t, k)
				// while the sequencer is parked: a duplicate of an entry being
				// sequenced, a duplicate with a different chain, and a new entry
				d1 := w.SubmitDriven(a, es[1], false)
				alt := *es[0]
				alt.Issuers = append([][]byte{}, []byte("issuer-ALT"))
				d2 := w.SubmitDriven(a, w.Intern(&alt), false)
				fresh := w.SynthEntry("fresh", true, "N")
				s3 := w.SubmitDriven(a, fresh, false)
				w.Quiesce()
				if !w.FinishTask(a, t) {
					return fmt.Errorf("round stuck")
				}
				w.Check("allAcked", append(subs, d0, d1, d2)...)
				// after the round: duplicates hit the cache
				d3 := w.SubmitDriven(a, es[0], false)
				d4 := w.SubmitDriven(a, es[1], false)
				w.Check("allAcked", d3, d4)
				t2 := w.Go("round2", a.RoundMust)
				if !w.FinishTask(a, t2) {
					return fmt.Errorf("round2 stuck")
				}
				w.Check("allAcked", s3)
				d5 := w.SubmitDriven(a, fresh, false)
				w.Check("allAcked", d5)
				// restart: the cache file persists
				w.Crash(a)
				w.Gate(false)
				b := w.NewInc("A")
				if err := b.Load(allFlags); err != nil {
					return nil
				}
				d6 := b.Submit(es[0], false)
				d7 := b.Submit(fresh, false)
				w.Check("allAcked", d6, d7)
				return nil
			})
		}
		// same bytes as certificate and as precertificate (two issuer key hashes): three keys
		r.Scenario(fmt.Sprintf("dedup/b%d/cert-vs-precert", base), false, func(w *World) error {
			a, err := Setup(w, base, 0)
			if err != nil {
				return err
			}
			body := []byte("same-bytes")
			e1 := w.Intern(&Entry{Cert: body})
			e2 := w.Intern(&Entry{Cert: body, IsPrecert: true, PreCert: []byte("pc"), IKH: sha256.Sum256([]byte("k1"))})
			e3 := w.Intern(&Entry{Cert: body, IsPrecert: true, PreCert: []byte("pc"), IKH: sha256.Sum256([]byte("k2"))})
			subs := submitAll(w, a, []*Entry{e1, e2, e3, e2})
			t := w.Go("round", a.RoundMust)
			if !w.FinishTask(a, t) {
				return fmt.Errorf("round stuck")
			}
			w.Check("allAcked", subs...)
			d := submitAll(w, a, []*Entry{e3, e1})
			w.Check("allAcked", d...)
			return nil
		})
		// failed round, resubmission, and cache loss
		for _, failAt := range []string{"Upload:staging", "Upload:checkpoint"} {
			for _, out := range []Outcome{Fail, FailApplied} {
				r.Scenario(fmt.Sprintf("dedup/b%d/failed-%s-%s-resubmit", base, failAt, out), false, func(w *World) error {
					a, err := Setup(w, base, 0)
					if err != nil {
						return err
					}
					es := newEntries(w, "n", 2)
					subs := submitAll(w, a, es)
					t := w.Go("round", a.Round)
					op := w.DriveUntil(t, func(p []*Op) *Op {
						for _, o := range p {
							if o.Class() == failAt {
								return o
							}
						}
						return nil
					})
					if op == nil {
						return fmt.Errorf("no %s", failAt)
					}
					// a duplicate arrives while the doomed round is in flight
					d := w.SubmitDriven(a, es[0], false)
					w.Release(op, out)
					// and another between the failure and the clearing of the in-sequencing map
					op2 := w.DriveUntil(t, func(p []*Op) *Op {
						for _, o := range p {
							if o.Class() == "Point:pre-clear-inseq" {
								return o
							}
						}
						return nil
					})
					d2 := w.SubmitDriven(a, es[1], false)
					_ = op2
					w.FinishTask(a, t)
					w.Check("allDone", append(subs, d, d2)...)
					again := submitAll(w, a, es)
					t2 := w.Go("round2", a.RoundMust)
					if !w.FinishTask(a, t2) {
						return fmt.Errorf("round2 stuck")
					}
					w.Check("allAcked", again...)
					return nil
				})
			}
		}
		for _, keep := range []string{"empty", "older"} {
			r.Scenario(fmt.Sprintf("dedup/b%d/cache-rollback-%s", base, keep), false, func(w *World) error {
				a, err := Setup(w, base, 0)
				if err != nil {
					return err
				}
				w.Gate(false)
				es := newEntries(w, "n", 3)
				s1 := a.Submit(es[0], false)
				w.Settle()
				a.RoundMust()
				snap := w.CacheSnapshot("A")
				s2 := a.Submit(es[1], false)
				w.Settle()
				a.RoundMust()
				w.Check("allAcked", s1, s2)
				w.Crash(a)
				a.CloseCache()
				if keep == "empty" {
					w.CacheRollback("A", nil)
				} else {
					w.CacheRollback("A", snap)
				}
				b := w.NewInc("A")
				if err := b.Load(allFlags); err != nil {
					return nil
				}
				d1 := b.Submit(es[0], false)
				d2 := b.Submit(es[1], false)
				s3 := b.Submit(es[2], false)
				w.Settle()
				b.RoundMust()
				w.Check("allAcked", d1, d2, s3)
				return nil
			})
		}
	}
}

type tamperKind struct {
	name string
	f    func(w *World, key string) bool
}

func tamperKinds(w *World) []tamperKind {
	return []tamperKind{
		{"delete", func(w *World, k string) bool { w.Tamper(k, nil, "delete"); return true }},
		{"truncate", func(w *World, k string) bool {
			b, ok := w.Object(k)
			if !ok || len(b) < 2 {
				return false
			}
			w.Tamper(k, b[:len(b)/2], "truncate")
			return true
		}},
		{"bitflip", func(w *World, k string) bool {
			b, ok := w.Object(k)
			if !ok || len(b) == 0 {
				return false
			}
			b[len(b)/2] ^= 0x20
			w.Tamper(k, b, "bitflip")
			return true
		}},
		{"empty", func(w *World, k string) bool { w.Tamper(k, []byte{}, "empty"); return true }},
		// a partial data tile replaced by a well-formed prefix of itself, cut at an entry
		// boundary (what an older partial tile of the same index holds): all but the last
		// entry, the first entry only, and no entry at all
		{"fewer-entries", func(w *World, k string) bool { return dataTilePrefix(w, k, -1) }},
		{"first-entry-only", func(w *World, k string) bool { return dataTilePrefix(w, k, 1) }},
		{"no-entries", func(w *World, k string) bool { return dataTilePrefix(w, k, 0) }},
	}
}

// dataTilePrefix replaces a data tile by the first keep entries of itself (keep < 0:
// all but the last one), re-compressed. False if the key is no data tile or has
// too few entries for the cut to change anything.
func dataTilePrefix(w *World, key string, keep int) bool {
	if KeyClass(key) != "data" {
		return false
	}
	b, ok := w.Object(key)
	if !ok {
		return false
	}
	raw, err := gunzip(b)
	if err != nil {
		return false
	}
	var cuts []int // byte offsets after each entry
	rest := raw
	for len(rest) > 0 {
		_, r2, err := DecodeTileLeaf(rest)
		if err != nil {
			return false
		}
		cuts = append(cuts, len(raw)-len(r2))
		rest = r2
	}
	n := len(cuts)
	if keep < 0 {
		keep = n - 1
	}
	if keep >= n || keep < 0 {
		return false
	}
	end := 0
	if keep > 0 {
		end = cuts[keep-1]
	}
	w.Tamper(key, gz(raw[:end]), fmt.Sprintf("prefix-%d-of-%d", keep, n))
	return true
}

// FamilyTamper: storage is altered while the log is down (and, for a few
// objects, while it runs); afterwards the log is restarted and asked to
// sequence. Whatever it signs must extend the tree committed in the lock store.
func FamilyTamper(r *Runner) {
	bases := []int{0, 254}
	if r.Thorough() {
		bases = []int{0, 1, 254, 255, 256, 300}
	}
	for _, base := range bases {
		for _, lockAhead := range []bool{false, true} {
			// the objects present after two rounds (and, with lockAhead, a crash
			// right after the CAS): the targets
			var keys []string
			var prepWith func(w *World, a *Inc) (*Inc, []*Entry, error)
			prep := func(w *World) (*Inc, []*Entry, error) {
				a, err := Setup(w, base, 0)
				if err != nil {
					return nil, nil, err
				}
				return prepWith(w, a)
			}
			// prepFrom: the same on a world that was set up already (its instance crashed)
			prepFrom := func(w *World) (*Inc, []*Entry, error) {
				w.Gate(false)
				a := w.NewInc("A")
				if err := a.Load(allFlags); err != nil {
					return nil, nil, err
				}
				return prepWith(w, a)
			}
			prepWith = func(w *World, a *Inc) (*Inc, []*Entry, error) {
				w.Gate(false)
				for _, e := range newEntries(w, "r1", 2) {
					a.Submit(e, false)
				}
				w.Settle()
				a.Round()
				w.Settle()
				es := newEntries(w, "r2", 2)
				if lockAhead {
					w.Gate(true)
					submitAll(w, a, es)
					t := w.Go("round", a.Round)
					w.DriveUntil(t, func(p []*Op) *Op {
						for _, o := range p {
							if o.Kind == "Upload" && KeyClass(o.Key) == "hash" {
								return o
							}
						}
						return nil
					})
				}
				w.Crash(a)
				w.Gate(false)
				return a, es, nil
			}
			r.Scenario(fmt.Sprintf("tamper/b%d/ahead=%v/dry", base, lockAhead), true, func(w *World) error {
				_, _, err := prep(w)
				keys = w.Keys()
				return err
			})
			for _, key := range keys {
				cls := KeyClass(key)
				if t, ok := ParseTilePath(key); ok && base >= 254 && t.W == TW && t.N == 0 && t.K != "hash" {
					// inner full data/names tiles are never read back by the log
					if !r.Thorough() {
						continue
					}
				}
				for _, kind := range tamperKinds(nil) {
					if cls == "roots" && kind.name != "delete" && kind.name != "bitflip" {
						continue
					}
					if cls != "data" && (kind.name == "fewer-entries" || kind.name == "first-entry-only" || kind.name == "no-entries") {
						continue
					}
					r.Scenario(fmt.Sprintf("tamper/b%d/ahead=%v/%s/%s", base, lockAhead, key, kind.name), false, func(w *World) error {
						_, es, err := prep(w)
						if err != nil {
							return err
						}
						if !kind.f(w, key) {
							return nil
						}
						return afterTamper(w, es)
					})
				}
			}
			// the published checkpoint rolled back to an older one the log signed itself
			// (the only checkpoints an adversary can plant), alone and together with the
			// loss of every staging bundle, or with a right-edge tile deleted
			for _, with := range []string{"", "+nobundles", "+noedge"} {
				r.Scenario(fmt.Sprintf("tamper/b%d/ahead=%v/rollback-checkpoint%s", base, lockAhead, with), false, func(w *World) error {
					a, err := Setup(w, base, 0)
					if err != nil {
						return err
					}
					_ = a
					cp0, ok := w.Object("checkpoint")
					if !ok {
						return fmt.Errorf("no checkpoint after setup")
					}
					w.Crash(a)
					_, es, err := prepFrom(w)
					if err != nil {
						return err
					}
					cp1, _ := w.Object("checkpoint")
					if bytes.Equal(cp0, cp1) {
						return fmt.Errorf("checkpoint did not move")
					}
					w.Tamper("checkpoint", cp0, "rollback")
					switch with {
					case "+nobundles":
						for _, k := range w.Keys() {
							if KeyClass(k) == "staging" {
								w.Tamper(k, nil, "delete")
							}
						}
					case "+noedge":
						var last string
						for _, k := range w.Keys() {
							if KeyClass(k) == "hash" {
								last = k
							}
						}
						if last != "" {
							w.Tamper(last, nil, "delete")
						}
					}
					return afterTamper(w, es)
				})
			}
			// swaps
			r.Scenario(fmt.Sprintf("tamper/b%d/ahead=%v/swap-edge-tiles", base, lockAhead), false, func(w *World) error {
				_, es, err := prep(w)
				if err != nil {
					return err
				}
				var hs []string
				for _, k := range w.Keys() {
					if KeyClass(k) == "hash" {
						hs = append(hs, k)
					}
				}
				if len(hs) >= 2 {
					x, _ := w.Object(hs[0])
					y, _ := w.Object(hs[len(hs)-1])
					w.Tamper(hs[0], y, "swap")
					w.Tamper(hs[len(hs)-1], x, "swap")
				}
				return afterTamper(w, es)
			})
		}
		// an issuer object altered while the log runs, then an entry using it
		r.Scenario(fmt.Sprintf("tamper/b%d/live-issuer", base), false, func(w *World) error {
			a, err := Setup(w, base, 0)
			if err != nil {
				return err
			}
			w.Gate(false)
			e1 := w.SynthEntry("i1", false, "LIVE")
			s1 := a.Submit(e1, false)
			w.Settle()
			a.Round()
			w.Settle()
			for _, k := range w.Keys() {
				if KeyClass(k) == "issuer" {
					w.Tamper(k, []byte("not the issuer"), "replace")
				}
			}
			s2 := a.Submit(w.SynthEntry("i2", false, "LIVE"), false)
			w.Settle()
			a.Round()
			w.Settle()
			w.Crash(a)
			b := w.NewInc("A")
			if err := b.Load(map[string]bool{"faultFree": true, "clockOk": true, "exclusive": true}); err != nil {
				return nil
			}
			s3 := b.Submit(w.SynthEntry("i3", false, "LIVE"), false)
			w.Settle()
			b.Round()
			w.Check("allDone", s1, s2, s3)
			return nil
		})
	}
}

func afterTamper(w *World, pendingEntries []*Entry) error {
	b := w.NewInc("A")
	if err := b.Load(map[string]bool{"faultFree": true, "clockOk": true, "exclusive": true}); err != nil {
		w.Quiesce()
		return nil
	}
	var subs []*Sub
	for _, e := range pendingEntries {
		subs = append(subs, b.Submit(e, false))
	}
	subs = append(subs, b.Submit(w.SynthEntry("t-fresh", false, "X"), false))
	w.Settle()
	if err := b.Round(); err == nil {
		subs = append(subs, b.Submit(w.SynthEntry("t-fresh2", true, "N"), false))
		w.Settle()
		b.Round()
	}
	w.Check("allDone", subs...)
	w.Quiesce()
	return nil
}

// FamilyPool: admission control under every arrival order of high, low and
// duplicate submissions for small pool sizes; the real RunSequencer loop under
// virtual time; stops by cancellation, read-only date and fatal error.
func FamilyPool(r *Runner) {
	kinds := []string{"H", "L", "D"}
	maxLen := 4
	sizes := []int{1, 2}
	if r.Thorough() {
		maxLen = 5
		sizes = []int{1, 2, 3}
	}
	var seqs [][]string
	var gen func(cur []string)
	gen = func(cur []string) {
		if len(cur) > 0 {
			seqs = append(seqs, append([]string{}, cur...))
		}
		if len(cur) == maxLen {
			return
		}
		for _, k := range kinds {
			gen(append(cur, k))
		}
	}
	gen(nil)
	for _, ps := range sizes {
		for _, sq := range seqs {
			if len(sq) < ps+1 && !r.Thorough() {
				continue // shorter sequences never fill the pool
			}
			name := ""
			for _, k := range sq {
				name += k
			}
			r.Scenario(fmt.Sprintf("pool/size%d/%s", ps, name), false, func(w *World) error {
				a, err := Setup(w, 0, ps)
				if err != nil {
					return err
				}
				w.Gate(false)
				w.Quiesce()
				var subs []*Sub
				var last *Entry
				for i, k := range sq {
					var e *Entry
					switch k {
					case "H", "L":
						e = w.SynthEntry(fmt.Sprintf("p%d", i), i%2 == 0)
						last = e
					case "D":
						if last == nil {
							e = w.SynthEntry(fmt.Sprintf("p%d", i), false)
							last = e
						} else {
							e = last
						}
					}
					subs = append(subs, a.Submit(e, k == "L"))
					w.Quiesce()
				}
				a.RoundMust()
				w.Settle()
				w.Check("allDone", subs...)
				w.Quiesce()
				// resubmission of everything that was refused
				var again []*Sub
				for _, s := range subs {
					if _, _, res := w.SubState(s); res != "ok" {
						again = append(again, a.Submit(s.Entry, false))
						w.Quiesce()
					}
				}
				a.RoundMust()
				w.Settle()
				w.Check("allDone", again...)
				return nil
			})
		}
	}

	cancelAtTick(r)
	// RunSequencer under virtual time
	for _, stop := range []string{"cancel", "sunset", "fatal-cas", "fatal-clock"} {
		for _, ps := range []int{0, 2} {
			r.Scenario(fmt.Sprintf("pool/runsequencer/%s/size%d", stop, ps), false, func(w *World) error {
				if stop == "sunset" {
					// the bubble's clock starts at 2000-01-01: read-only 7 days after the limit
					w.NotAfterLimit = time.Date(2000, 1, 2, 0, 0, 0, 0, time.UTC)
				}
				a, err := Setup(w, 0, ps)
				if err != nil {
					return err
				}
				w.Gate(false)
				ctx, cancel := context.WithCancel(context.Background())
				defer cancel()
				done := w.Go("sequencer", func() error { return a.RunSequencer(ctx, time.Hour) })
				var subs []*Sub
				for i := 0; i < 3; i++ {
					subs = append(subs, a.Submit(w.SynthEntry(fmt.Sprintf("q%d", i), false, "X"), i == 1))
					w.Quiesce()
				}
				time.Sleep(61 * time.Minute) // one tick
				w.Settle()
				w.Check("allDone", subs...)
				w.Quiesce()
				var pend []*Sub
				for i := 0; i < 2; i++ {
					pend = append(pend, a.Submit(w.SynthEntry(fmt.Sprintf("late%d", i), false), false))
					w.Quiesce()
				}
				switch stop {
				case "cancel":
					cancel()
				case "sunset":
					time.Sleep(9 * 24 * time.Hour)
				case "fatal-cas":
					// somebody else moved the lock: the next CAS fails
					p := ParseCP(w.LockValue(), w.Name, &w.Key.PublicKey, w)
					other, _ := SignCP(w.Name, w.Key, w.WitnessKey, p.N, p.Root, p.Ts+1)
					w.SetLock(w.Key, other)
					time.Sleep(61 * time.Minute)
				case "fatal-clock":
					w.SetClock("stall")
					time.Sleep(61 * time.Minute)
					w.SetClock("")
				}
				w.Settle()
				if !w.IsDone(done) {
					return fmt.Errorf("sequencer did not stop")
				}
				w.Check("allDone", pend...)
				if stop != "sunset" {
					// (before the read-only date the hourly rounds still sequence them)
					w.Check("allFailed", pend...)
				}
				// after the stop: everything fails, nothing is signed
				var after []*Sub
				for i := 0; i < 2; i++ {
					after = append(after, a.Submit(w.SynthEntry(fmt.Sprintf("after%d", i), false), false))
					w.Quiesce()
				}
				after = append(after, a.Submit(subs[0].Entry, false))
				time.Sleep(3 * time.Hour)
				w.Settle()
				w.Check("allDone", after...)
				w.Check("allFailed", after[:2]...)
				return nil
			})
		}
	}
}

// cancelAtTick: the sequencer is cancelled while a round is in flight and the next
// tick is already due, so that RunSequencer's select finds both the tick and the
// cancellation ready (it picks one at random: several repetitions). A submission
// that arrived during the round must get its outcome whichever branch is taken.
func cancelAtTick(r *Runner) {
	for rep := 0; rep < 8; rep++ {
		r.Scenario(fmt.Sprintf("pool/runsequencer/cancel-at-tick/%d", rep), false, func(w *World) error {
			a, err := Setup(w, 0, 0)
			if err != nil {
				return err
			}
			ctx, cancel := context.WithCancel(context.Background())
			defer cancel()
			done := w.Go("sequencer", func() error { return a.RunSequencer(ctx, time.Hour) })
			s1 := w.SubmitDriven(a, w.SynthEntry("ct1", false, "X"), false)
			w.Quiesce()
			time.Sleep(61 * time.Minute) // the first tick: a round starts and parks at its first operation
			op := w.DriveUntil(done, func(p []*Op) *Op {
				for _, o := range p {
					if o.Kind == "Upload" && KeyClass(o.Key) == "checkpoint" {
						return o
					}
				}
				return nil
			})
			if op == nil {
				return fmt.Errorf("no checkpoint upload")
			}
			s2 := w.SubmitDriven(a, w.SynthEntry("ct2", false, "X"), false) // waits in the new pool
			w.Quiesce()
			time.Sleep(2 * time.Hour) // the next tick is due while the round is still in flight
			cancel()
			w.Release(op, OK)
			for i := 0; i < 100 && !w.IsDone(done); i++ {
				w.Settle()
				p := w.PendingOf(a)
				if len(p) == 0 {
					break
				}
				w.Release(p[0], OK)
			}
			w.Settle()
			if !w.IsDone(done) {
				return fmt.Errorf("sequencer did not stop")
			}
			time.Sleep(time.Hour)
			w.Settle()
			w.Check("allDone", s1, s2)
			return nil
		})
	}
}

// FamilyClock: the clock stalls, steps back or leaps around rounds and restarts.
func FamilyClock(r *Runner) {
	for _, base := range []int{0, 254} {
		for _, mode := range []string{"stall", "back", "jump"} {
			for _, when := range []string{"round", "restart"} {
				r.Scenario(fmt.Sprintf("clock/b%d/%s-at-%s", base, mode, when), false, func(w *World) error {
					a, err := Setup(w, base, 0)
					if err != nil {
						return err
					}
					w.Gate(false)
					s0 := a.Submit(w.SynthEntry("c0", false), false)
					w.Settle()
					a.RoundMust()
					w.Settle()
					var subs []*Sub
					cur := a
					if when == "restart" {
						w.Crash(a)
						w.SetClock(mode)
						cur = w.NewInc("A")
						err := cur.Load(map[string]bool{"faultFree": true, "untampered": true, "exclusive": true})
						w.SetClock("")
						if err != nil {
							// the operator fixes the clock and restarts
							cur = w.NewInc("A")
							if err := cur.Load(allFlags); err != nil {
								return nil
							}
						}
					}
					subs = append(subs, cur.Submit(w.SynthEntry("c1", false), false))
					w.Settle()
					if when == "round" {
						w.SetClock(mode)
					}
					err = cur.Round()
					w.SetClock("")
					w.Settle()
					if err != nil {
						w.Crash(cur)
						cur = w.NewInc("A")
						if mode == "jump" {
							// after a leap forward the clock is behind the signed
							// head until real time catches up
							cur.Load(map[string]bool{"faultFree": true, "untampered": true, "exclusive": true})
							return nil
						}
						if err := cur.Load(allFlags); err != nil {
							return nil
						}
						subs = append(subs, cur.Submit(w.SynthEntry("c1", false), false))
					}
					subs = append(subs, cur.Submit(w.SynthEntry("c2", false), false))
					w.Settle()
					cur.Round()
					w.Settle()
					w.Check("allDone", append(subs, s0)...)
					// a second anomaly right after a good round
					w.SetClock(mode)
					cur.Round()
					w.SetClock("")
					w.Quiesce()
					return nil
				})
			}
		}
	}
}

// FamilyMore: scenarios added after reviewing independently seeded defects.
func FamilyMore(r *Runner) {
	// The lock store is ahead of object storage at start-up (crash right after
	// the CAS), and after the restart the clock reads exactly the lock
	// checkpoint's time, or a time between the published and the lock one.
	for _, base := range []int{0, 254} {
		for _, mode := range []string{"equal-lock", "between", "equal-pub"} {
			for _, how := range []string{"crash-after-cas", "publish-failed"} {
				r.Scenario(fmt.Sprintf("clock/ahead/b%d/%s/%s", base, how, mode), false, func(w *World) error {
					a, err := Setup(w, base, 0)
					if err != nil {
						return err
					}
					pubTs := ParseCP(w.LockValue(), w.Name, &w.Key.PublicKey, nil).Ts
					es := newEntries(w, "n", 2)
					submitAll(w, a, es)
					t := w.Go("round", a.Round)
					if how == "crash-after-cas" {
						w.DriveUntil(t, func(p []*Op) *Op {
							for _, o := range p {
								if o.Kind == "Upload" && KeyClass(o.Key) == "hash" {
									return o
								}
							}
							return nil
						})
					} else {
						op := w.DriveUntil(t, func(p []*Op) *Op {
							for _, o := range p {
								if o.Class() == "Upload:checkpoint" {
									return o
								}
							}
							return nil
						})
						if op != nil {
							w.Release(op, Fail)
						}
						w.FinishTask(a, t)
					}
					w.Crash(a)
					w.Gate(false)
					lockTs := ParseCP(w.LockValue(), w.Name, &w.Key.PublicKey, nil).Ts
					b := w.NewInc("A")
					if err := b.Load(allFlags); err != nil {
						return nil
					}
					s1 := b.Submit(w.SynthEntry("late", false), false)
					w.Settle()
					switch mode {
					case "equal-lock":
						w.SetClockNext(lockTs)
					case "between":
						w.SetClockNext((pubTs + lockTs + 1) / 2)
					case "equal-pub":
						w.SetClockNext(pubTs)
					}
					err = b.Round()
					w.ClearClockNext()
					w.Settle()
					if err != nil {
						w.Crash(b)
						_, err = Recover(w, "A", []*Entry{s1.Entry}, "ca")
						return err
					}
					w.Check("allDone", s1)
					return nil
				})
			}
		}
	}

	// CreateLog run again on an existing, non-empty log while its two
	// existence checks fail transiently; and a creation interrupted after
	// Lock.Create, retried with a failing lock fetch.
	for _, which := range []string{"both-fetches-fail", "lock-fetch-fails", "storage-fetch-fails"} {
		r.Scenario("instances/create-over-existing-faulty/"+which, false, func(w *World) error {
			a, err := Setup(w, 0, 0)
			if err != nil {
				return err
			}
			w.Gate(false)
			s := a.Submit(w.SynthEntry("x", false, "X"), false)
			w.Settle()
			a.Round()
			w.Check("allDone", s)
			w.Gate(true)
			c := w.NewInc("C")
			t := w.Go("create", c.Create)
			for i := 0; i < 20 && !w.IsDone(t); i++ {
				p := w.PendingOf(c)
				if len(p) == 0 {
					break
				}
				out := OK
				if (p[0].Kind == "LockFetch" && which != "storage-fetch-fails") || (p[0].Kind == "Fetch" && which != "lock-fetch-fails") {
					out = Fail
				}
				w.Release(p[0], out)
			}
			w.Quiesce()
			w.Gate(false)
			w.Crash(a)
			_, err = Recover(w, "A", nil, "cf")
			return err
		})
	}
	r.Scenario("instances/create-interrupted-retried", false, func(w *World) error {
		w.Gate(true)
		a := w.NewInc("A")
		t := w.Go("create", a.Create)
		op := w.DriveUntil(t, func(p []*Op) *Op {
			for _, o := range p {
				if o.Class() == "Upload:checkpoint" {
					return o
				}
			}
			return nil
		})
		if op == nil {
			return fmt.Errorf("create did not reach the checkpoint upload")
		}
		w.Crash(a)
		b := w.NewInc("A")
		t2 := w.Go("create2", b.Create)
		for i := 0; i < 20 && !w.IsDone(t2); i++ {
			p := w.PendingOf(b)
			if len(p) == 0 {
				break
			}
			out := OK
			if p[0].Kind == "LockFetch" {
				out = Fail
			}
			w.Release(p[0], out)
		}
		w.Quiesce()
		return nil
	})

	// A submitter whose chain has a not-yet-seen issuer is slow (its issuer
	// upload is parked) while the same entry is submitted with a known chain,
	// admitted and sequenced; then the slow one goes on.
	for _, base := range []int{0, 254} {
		for _, when := range []string{"round-completed", "round-in-progress", "same-pool"} {
			r.Scenario(fmt.Sprintf("dedup/b%d/slow-issuer/%s", base, when), false, func(w *World) error {
				a, err := Setup(w, base, 0)
				if err != nil {
					return err
				}
				e := w.RealEntry("slow", false, "NEWISS")
				// the same entry submitted without any issuer: a submitter with
				// issuers would wait for the issuer lock held by the slow one
				alt := *e
				alt.Issuers = nil
				e2 := w.Intern(&alt)
				s1 := a.Submit(e, false) // parks at the fetch of issuer NEWISS
				w.Settle()
				s2 := w.SubmitDriven(a, e2, false)
				var t *Task
				if when != "same-pool" {
					t = w.Go("round", a.Round)
					if when == "round-completed" {
						for !w.IsDone(t) {
							p := w.PendingOf(a)
							var seq *Op
							for _, o := range p {
								if !isIssuerOp(o) {
									seq = o
									break
								}
							}
							if seq == nil {
								break
							}
							w.Release(seq, OK)
						}
					} else {
						for i := 0; i < 4; i++ {
							for _, o := range w.PendingOf(a) {
								if !isIssuerOp(o) {
									w.Release(o, OK)
									break
								}
							}
						}
					}
				}
				// the slow submitter goes on
				for i := 0; i < 10; i++ {
					if ret, _, _ := w.SubState(s1); ret {
						break
					}
					for _, o := range w.PendingOf(a) {
						if isIssuerOp(o) {
							w.Release(o, OK)
							break
						}
					}
				}
				if t != nil {
					w.FinishTask(a, t)
				}
				t2 := w.Go("round2", a.Round)
				w.FinishTask(a, t2)
				w.Check("allAcked", s1, s2)
				d := w.SubmitDriven(a, e, false)
				w.Check("allAcked", d)
				return nil
			})
		}
	}

	// Log names at and beyond the length the cosigner supports: either the log
	// cannot be created, or everything it signs is fully signed.
	for _, n := range []int{200, 255, 256, 300} {
		r.Scenario(fmt.Sprintf("longname/%d", n), false, func(w *World) error {
			w.Name = "example.com/" + strings.Repeat("n", n-12)
			a := w.NewInc("A")
			if err := a.Create(); err != nil {
				return nil
			}
			if err := a.Load(allFlags); err != nil {
				return nil
			}
			s1 := a.Submit(w.SynthEntry("ln", false, "X"), false)
			w.Settle()
			a.Round()
			w.Settle()
			a.Round()
			w.Check("allDone", s1)
			return nil
		})
	}

	// Two submitters of different entries share a not-yet-seen issuer; the
	// first one's issuer upload is in flight (or fails) while the second is
	// admitted and sequenced. The second submitter may be blocked on the
	// issuer lock, which synctest does not consider durably blocked: this
	// scenario settles by goroutine states instead.
	for _, out := range []Outcome{OK, Fail} {
		r.Scenario(fmt.Sprintf("issuer-race/%s", out), false, func(w *World) error {
			a, err := Setup(w, 0, 0)
			if err != nil {
				return err
			}
			e1 := w.SynthEntry("ir1", false, "SHARED")
			e2 := w.SynthEntry("ir2", false, "SHARED")
			s1 := a.Submit(e1, false)
			w.Settle() // s1 is parked at the fetch of the issuer
			s2 := a.SubmitLoose(e2, false)
			// a round while the first upload is still in flight: only the
			// sequencer's operations are released
			t := w.GoLoose("round", a.Round)
			for i := 0; i < 40; i++ {
				w.SettleLoose()
				if w.IsDone(t) {
					break
				}
				var seq *Op
				for _, o := range w.PendingOf(a) {
					if !isIssuerOp(o) {
						seq = o
						break
					}
				}
				if seq == nil {
					break
				}
				w.ReleaseLoose(seq, OK)
			}
			// now the first submitter's issuer operations complete (or the upload fails)
			for i := 0; i < 10; i++ {
				w.SettleLoose()
				var iss *Op
				for _, o := range w.PendingOf(a) {
					if isIssuerOp(o) {
						iss = o
						break
					}
				}
				if iss == nil {
					break
				}
				o := OK
				if iss.Kind == "Upload" {
					o = out
				}
				w.ReleaseLoose(iss, o)
			}
			w.SettleLoose()
			if !w.IsDone(t) {
				for i := 0; i < 40 && !w.IsDone(t); i++ {
					p := w.PendingOf(a)
					if len(p) == 0 {
						break
					}
					w.ReleaseLoose(p[0], OK)
				}
			}
			w.Settle()
			t2 := w.Go("round2", a.Round)
			w.FinishTask(a, t2)
			w.Check("allDone", s1, s2)
			w.Quiesce()
			return nil
		})
	}
}

// repackBundle rewrites a staging bundle (gzip'd tar with SUNLIGHT.opts PAX
// records) after letting f edit its members.
func repackBundle(gzdata []byte, f func([]member) []member) []byte {
	ms := f(bundleMembers(gzdata))
	var buf bytes.Buffer
	tw := tar.NewWriter(&buf)
	for _, m := range ms {
		tw.WriteHeader(&tar.Header{Name: m.key, Size: int64(len(m.data)), PAXRecords: map[string]string{"SUNLIGHT.opts": m.opts}})
		tw.Write(m.data)
	}
	tw.Close()
	return gz(buf.Bytes())
}

// FamilyTamperBundle: the staging bundle the recovery will replay is re-packed
// with an extra, wider right-edge tile pair (a fabricated leaf appended), with
// an altered tile, or with a member missing.
func FamilyTamperBundle(r *Runner) {
	for _, base := range []int{0, 254, 255} {
		for _, kind := range []string{"wider", "alter-hash", "alter-data", "drop-hash", "drop-data", "extra-junk"} {
			r.Scenario(fmt.Sprintf("tamper/b%d/bundle-%s", base, kind), false, func(w *World) error {
				a, err := Setup(w, base, 0)
				if err != nil {
					return err
				}
				w.Gate(false)
				for _, e := range newEntries(w, "r1", 2) {
					a.Submit(e, false)
				}
				w.Settle()
				a.Round()
				w.Settle()
				es := newEntries(w, "r2", 2)
				w.Gate(true)
				submitAll(w, a, es)
				t := w.Go("round", a.Round)
				w.DriveUntil(t, func(p []*Op) *Op {
					for _, o := range p {
						if o.Kind == "Upload" && KeyClass(o.Key) == "hash" {
							return o
						}
					}
					return nil
				})
				w.Crash(a)
				w.Gate(false)
				var skey string
				for _, k := range w.Keys() {
					if KeyClass(k) == "staging" {
						skey = k
					}
				}
				if skey == "" {
					return fmt.Errorf("no staging bundle")
				}
				old, _ := w.Object(skey)
				nb := repackBundle(old, func(ms []member) []member {
					var hi, di = -1, -1
					for i, m := range ms {
						if t, ok := ParseTilePath(m.key); ok && t.K == "hash" && t.L == 0 && (hi < 0 || t.N >= mustTile(ms[hi].key).N) {
							hi = i
						}
						if t, ok := ParseTilePath(m.key); ok && t.K == "data" && (di < 0 || t.N >= mustTile(ms[di].key).N) {
							di = i
						}
					}
					if hi < 0 || di < 0 {
						return ms
					}
					switch kind {
					case "wider":
						ht, dt := mustTile(ms[hi].key), mustTile(ms[di].key)
						if ht.W >= TW {
							return ms
						}
						fake := &Leaf{Timestamp: 1, Certificate: []byte("fabricated"), Index: ht.N*TW + int64(ht.W)}
						lh := leafHash(fake.MerkleTreeLeaf())
						raw, _ := gunzip(ms[di].data)
						ht.W++
						dt.W++
						ms = append(ms, member{ht.Path(), append(append([]byte{}, ms[hi].data...), lh[:]...), ms[hi].opts},
							member{dt.Path(), gz(append(raw, fake.TileLeaf()...)), ms[di].opts})
					case "alter-hash":
						d := append([]byte{}, ms[hi].data...)
						d[len(d)-1] ^= 1
						ms[hi].data = d
					case "alter-data":
						raw, _ := gunzip(ms[di].data)
						raw[len(raw)/2] ^= 1
						ms[di].data = gz(raw)
					case "drop-hash":
						ms = append(ms[:hi], ms[hi+1:]...)
					case "drop-data":
						ms = append(ms[:di], ms[di+1:]...)
					case "extra-junk":
						ms = append(ms, member{"tile/9/000.p/1", []byte("0123456789abcdef0123456789abcdef"), ms[hi].opts})
					}
					return ms
				})
				w.Tamper(skey, nb, "repack-"+kind)
				return afterTamper(w, es)
			})
		}
	}
}

func mustTile(key string) TileID {
	t, _ := ParseTilePath(key)
	return t
}

// FamilyHTTP: submissions through the real add-chain / add-pre-chain handlers
// with real chains; every acknowledgement's SCT is verified independently from
// the submitted chain, resubmissions must get byte-identical SCTs, also after a
// restart, and refused submissions leave no leaf.
// httpPool: admission control seen through the HTTP front door with a bounded
// pool: low-priority certificates (they carry SCTs) fill the pool, high-priority
// ones evict them one by one, then everything is refused; the evicted
// submitters must get the retry-later answer.
func httpPool(r *Runner) {
	for _, ps := range []int{1, 2} {
		r.Scenario(fmt.Sprintf("http/pool/size%d", ps), false, func(w *World) error {
			a, err := Setup(w, 0, ps)
			if err != nil {
				return err
			}
			w.Gate(false)
			root := certs.NewRoot("verif root", certs.CAOptions{})
			inter := root.NewIntermediate("verif intermediate", certs.CAOptions{})
			if err := a.Log.SetRootsFromPEM(a.Ctx(), certs.PEM(root)); err != nil {
				return err
			}
			w.Gate(true)
			// low priority over HTTP: a certificate that already carries an SCT (a list with one 4-byte element)
			low := func() *certs.Leaf {
				return inter.Issue(certs.LeafOptions{EKU: certs.ServerAuth, SCTList: []byte{0, 6, 0, 4, 0xde, 0xad, 0xbe, 0xef}})
			}
			high := func() *certs.Leaf { return inter.Issue(certs.LeafOptions{EKU: certs.ServerAuth}) }
			var subs []*Sub
			var leaves []*certs.Leaf
			post := func(l *certs.Leaf, isLow bool) {
				leaves = append(leaves, l)
				subs = append(subs, w.SubmitHTTPDriven(a, l.Chain(false), l.FullChain(), "add-chain", isLow))
				w.Quiesce()
			}
			for i := 0; i < ps; i++ {
				post(low(), true) // fill the pool with low-priority entries
			}
			post(low(), true) // full: refused
			for i := 0; i < ps; i++ {
				post(high(), false) // each evicts one low-priority entry
			}
			post(high(), false) // full, nothing to evict: refused
			post(low(), true)   // refused
			t := w.Go("round", a.RoundMust)
			if !w.Drive(t, FIFO) {
				return fmt.Errorf("round stuck")
			}
			w.Check("allDone", subs...)
			// the pool is empty again: an evicted certificate is taken now
			again := w.SubmitHTTPDriven(a, leaves[0].Chain(false), leaves[0].FullChain(), "add-chain", true)
			w.Quiesce()
			t = w.Go("round2", a.RoundMust)
			w.Drive(t, FIFO)
			w.Check("allDone", again)
			return nil
		})
	}
}

func FamilyHTTP(r *Runner) {
	httpPool(r)
	for _, base := range []int{0, 254} {
		for _, order := range []string{"fifo", "lifo"} {
			r.Scenario(fmt.Sprintf("http/b%d/%s", base, order), false, func(w *World) error {
				a, err := Setup(w, base, 0)
				if err != nil {
					return err
				}
				w.Gate(false)
				root := certs.NewRoot("verif root", certs.CAOptions{})
				other := certs.NewRoot("unknown root", certs.CAOptions{})
				inter := root.NewIntermediate("verif intermediate", certs.CAOptions{})
				pre := inter.NewPreIssuer("verif preissuer", certs.CAOptions{})
				if err := a.Log.SetRootsFromPEM(a.Ctx(), certs.PEM(root)); err != nil {
					return err
				}
				w.Gate(true)
				type sub struct {
					leaf     *certs.Leaf
					endpoint string
					low      bool
					accept   bool
				}
				mk := func(l *certs.Leaf, ep string, low, acc bool) sub { return sub{l, ep, low, acc} }
				cases := []sub{
					mk(inter.Issue(certs.LeafOptions{EKU: certs.ServerAuth}), "add-chain", false, true),
					mk(inter.Issue(certs.LeafOptions{EKU: certs.ServerAuth, Precert: true}), "add-pre-chain", false, true),
					mk(pre.Issue(certs.LeafOptions{EKU: certs.ServerAuth, Precert: true}), "add-pre-chain", false, true),
					mk(root.Issue(certs.LeafOptions{EKU: certs.ServerAuth}), "add-chain", false, true),
					mk(inter.Issue(certs.LeafOptions{EKU: certs.ServerAuth, SCTList: []byte{0, 0}}), "add-chain", true, true),
					mk(inter.Issue(certs.LeafOptions{EKU: certs.ServerAuth, Precert: true}), "add-chain", false, false),
					mk(inter.Issue(certs.LeafOptions{EKU: certs.ServerAuth}), "add-pre-chain", false, false),
					mk(other.NewIntermediate("x", certs.CAOptions{}).Issue(certs.LeafOptions{EKU: certs.ServerAuth}), "add-chain", false, false),
				}
				var subs, good []*Sub
				for _, c := range cases {
					s := w.SubmitHTTPDriven(a, c.leaf.Chain(false), c.leaf.FullChain(), c.endpoint, c.low)
					subs = append(subs, s)
					if c.accept {
						good = append(good, s)
					}
				}
				w.Quiesce()
				pol := FIFO
				if order == "lifo" {
					pol = LIFO
				}
				t := w.Go("round", a.RoundMust)
				if !w.Drive(t, pol) {
					return fmt.Errorf("round stuck")
				}
				w.Check("allAcked", good...)
				w.Check("allDone", subs...)
				// resubmissions: the same SCT, from the cache
				var dups []*Sub
				for _, c := range cases[:5] {
					dups = append(dups, w.SubmitHTTPDriven(a, c.leaf.FullChain(), c.leaf.FullChain(), c.endpoint, c.low))
				}
				w.Check("allAcked", dups...)
				t = w.Go("round2", a.RoundMust)
				w.Drive(t, pol)
				w.Crash(a)
				w.Gate(false)
				b := w.NewInc("A")
				if err := b.Load(allFlags); err != nil {
					return nil
				}
				var again []*Sub
				for _, c := range cases[:5] {
					again = append(again, b.SubmitHTTP(c.leaf.Chain(false), c.leaf.FullChain(), c.endpoint, c.low))
				}
				fl := inter.Issue(certs.LeafOptions{EKU: certs.ServerAuth})
				again = append(again, b.SubmitHTTP(fl.Chain(false), fl.FullChain(), "add-chain", false))
				w.Settle()
				b.RoundMust()
				w.Check("allAcked", again...)
				return nil
			})
		}
	}
}
