package sim

import (
	"os"
	"strings"
	"testing"
)

var families = map[string]func(*Runner){
	"happy":        FamilyHappy,
	"crash":        FamilyCrash,
	"subsets":      FamilySubsets,
	"fault":        FamilyFaults,
	"recrash":      FamilyCrashInRecovery,
	"instances":    FamilyInstances,
	"startup":      FamilyStartup,
	"dedup":        FamilyDedup,
	"tamper":       FamilyTamper,
	"pool":         FamilyPool,
	"clock":        FamilyClock,
	"replay":       FamilyReplay,
	"more":         FamilyMore,
	"tamperbundle": FamilyTamperBundle,
	"http":         FamilyHTTP,
	"cachetools":   FamilyCacheTools,
}

var familyOrder = []string{"happy", "crash", "subsets", "fault", "recrash", "instances", "startup", "dedup", "tamper", "pool", "clock", "replay", "more", "tamperbundle", "http", "cachetools"}

// TestCorpus records the scenario corpus. Environment: VERIF_OUT (ndjson file to
// append to), VERIF_TIER, VERIF_SEED, VERIF_SHARD=i/n, VERIF_FAMILIES (comma
// list; default all), VERIF_ONLY (substring of scenario names).
func TestCorpus(t *testing.T) {
	if os.Getenv("VERIF_OUT") == "" && os.Getenv("VERIF_DRY") == "" {
		t.Skip("VERIF_OUT not set")
	}
	r := NewRunner(t)
	want := os.Getenv("VERIF_FAMILIES")
	for _, name := range familyOrder {
		if want != "" && !strings.Contains(","+want+",", ","+name+",") {
			continue
		}
		families[name](r)
	}
	t.Logf("CORPUS scenarios=%d ran=%d events=%d harnessErrors=%d", r.Count, r.Ran, r.Events, len(r.Errors))
	for _, e := range r.Errors {
		t.Logf("HARNESS-ERROR %s", e)
	}
}
