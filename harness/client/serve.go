package client

import (
	"context"
	"fmt"
	"net/http"
	"net/http/httptest"
	"os"
	"path/filepath"
	"strings"
	"sync"

	"filippo.io/sunlight"
)

// A Transport serves the log's objects, with the overrides of one case, to a
// new sunlight.Client.
type Transport interface {
	Name() string
	// Open returns a client reading the log with over in place of the pristine
	// objects; done restores the transport and reports how many times a
	// target object was requested (-1: not observable).
	Open(ld *LogData, rl *Realised) (c *sunlight.Client, done func() int, err error)
}

// ----------------------------------------------------------------- HTTP

// tamperingHandler is the in-process HTTP server: it answers the monitoring
// prefix from the log's objects, applying the tampering on the fly.
type tamperingHandler struct {
	objs    map[string][]byte
	over    map[string][]byte
	targets map[string]bool
	mu      sync.Mutex
	hits    int
	reqs    int
}

func (h *tamperingHandler) ServeHTTP(w http.ResponseWriter, r *http.Request) {
	p := strings.TrimPrefix(r.URL.Path, "/")
	h.mu.Lock()
	h.reqs++
	if h.targets[p] {
		h.hits++
	}
	h.mu.Unlock()
	if r.Method != "GET" {
		http.Error(w, "method", http.StatusMethodNotAllowed)
		return
	}
	b, ok := h.over[p]
	if !ok {
		b, ok = h.objs[p]
	}
	if !ok {
		http.Error(w, "not found", http.StatusNotFound)
		return
	}
	w.Header().Set("Content-Type", "application/octet-stream")
	w.Header().Set("Content-Length", fmt.Sprint(len(b)))
	w.WriteHeader(http.StatusOK)
	w.Write(b)
}

// handlerTransport is an http.RoundTripper that hands the request to the
// handler directly: no socket, no timing.
type handlerTransport struct{ h http.Handler }

func (t handlerTransport) RoundTrip(r *http.Request) (*http.Response, error) {
	if err := r.Context().Err(); err != nil {
		return nil, err
	}
	rec := httptest.NewRecorder()
	t.h.ServeHTTP(rec, r)
	res := rec.Result()
	res.Request = r
	return res, nil
}

type httpTransport struct{}

func (httpTransport) Name() string { return "http" }

func (httpTransport) Open(ld *LogData, rl *Realised) (*sunlight.Client, func() int, error) {
	h := &tamperingHandler{objs: ld.Objs, over: rl.Over, targets: map[string]bool{}}
	for _, t := range rl.Targets {
		h.targets[t] = true
	}
	c, err := sunlight.NewClient(&sunlight.ClientConfig{
		MonitoringPrefix: "http://c12.verif.invalid/",
		PublicKey:        ld.Key.Public(),
		HTTPClient:       &http.Client{Transport: handlerTransport{h}},
		UserAgent:        "verif-c12 (+https://verif.invalid)",
	})
	if err != nil {
		return nil, nil, err
	}
	return c, func() int { h.mu.Lock(); defer h.mu.Unlock(); return h.hits }, nil
}

// cacheTransport is the in-process HTTP server behind a client with a
// permanent tile cache (ClientConfig.Cache) that an earlier, untampered scan of
// the same tree has filled: the tampered answers meet cached, verified tiles.
type cacheTransport struct{ root string }

func (cacheTransport) Name() string { return "httpcache" }

func (t cacheTransport) Open(ld *LogData, rl *Realised) (*sunlight.Client, func() int, error) {
	dir, err := os.MkdirTemp(t.root, "cache")
	if err != nil {
		return nil, nil, err
	}
	newClient := func(h http.Handler) (*sunlight.Client, error) {
		return sunlight.NewClient(&sunlight.ClientConfig{
			MonitoringPrefix: "http://c12.verif.invalid/",
			PublicKey:        ld.Key.Public(),
			HTTPClient:       &http.Client{Transport: handlerTransport{h}},
			UserAgent:        "verif-c12 (+https://verif.invalid)",
			Cache:            dir,
		})
	}
	prist := map[string][]byte{}
	if rl.Tree == ld.Mis {
		prist = ld.misOverrides(rl.Size)
	}
	warm, err := newClient(&tamperingHandler{objs: ld.Objs, over: prist, targets: map[string]bool{}})
	if err != nil {
		os.RemoveAll(dir)
		return nil, nil, err
	}
	n := int64(0)
	for range warm.AllEntries(context.Background(), treeHead(rl.Tree, rl.Size), 0) {
		n++
	}
	if err := warm.Err(); err != nil || n != rl.Size {
		// not this case's answer: recorded, and the case goes on with whatever the cache holds
		rl.WarmFailed = fmt.Sprintf("warming the cache: %d of %d entries, %v", n, rl.Size, err)
	}
	h := &tamperingHandler{objs: ld.Objs, over: rl.Over, targets: map[string]bool{}}
	for _, t := range rl.Targets {
		h.targets[t] = true
	}
	c, err := newClient(h)
	if err != nil {
		os.RemoveAll(dir)
		return nil, nil, err
	}
	return c, func() int { os.RemoveAll(dir); h.mu.Lock(); defer h.mu.Unlock(); return h.hits }, nil
}

// ----------------------------------------------------------------- file://, gzip+file://

// fileTransport keeps a directory holding the pristine objects (data tiles
// gzip-compressed for gzip+file://); a case's overrides are written over the
// files for the duration of the call and the pristine files restored after.
type fileTransport struct {
	scheme string // "file" | "gzip+file"
	dir    string
	gz     map[string][]byte // compressed pristine data tiles (gzip+file)
}

func (t *fileTransport) Name() string {
	if t.scheme == "file" {
		return "file"
	}
	return "gzip"
}

func isDataTile(p string) bool { return strings.HasPrefix(p, "tile/data/") }

func (t *fileTransport) content(p string, b []byte) []byte {
	if t.scheme == "gzip+file" && isDataTile(p) {
		return gz(b)
	}
	return b
}

func writeObj(dir, p string, b []byte) error {
	f := filepath.Join(dir, filepath.FromSlash(p))
	if err := os.MkdirAll(filepath.Dir(f), 0o755); err != nil {
		return err
	}
	return os.WriteFile(f, b, 0o644)
}

func newFileTransport(scheme, dir string, ld *LogData) (*fileTransport, error) {
	t := &fileTransport{scheme: scheme, dir: dir, gz: map[string][]byte{}}
	for p, b := range ld.Objs {
		if !strings.HasPrefix(p, "tile/") && p != "checkpoint" {
			continue
		}
		if strings.HasPrefix(p, "tile/names/") {
			continue
		}
		c := t.content(p, b)
		if scheme == "gzip+file" && isDataTile(p) {
			t.gz[p] = c
		}
		if err := writeObj(dir, p, c); err != nil {
			return nil, err
		}
	}
	return t, nil
}

func (t *fileTransport) Open(ld *LogData, rl *Realised) (*sunlight.Client, func() int, error) {
	var touched []string
	restore := func() {
		for _, p := range touched {
			if b, ok := ld.Objs[p]; ok {
				c := b
				if z, ok := t.gz[p]; ok {
					c = z
				}
				writeObj(t.dir, p, c)
			} else {
				os.Remove(filepath.Join(t.dir, filepath.FromSlash(p)))
			}
		}
	}
	for p, b := range rl.Over {
		c := t.content(p, b)
		if z, ok := rl.GzRaw[p]; ok && t.scheme == "gzip+file" {
			c = z
		}
		touched = append(touched, p)
		if err := writeObj(t.dir, p, c); err != nil {
			restore()
			return nil, nil, err
		}
	}
	c, err := sunlight.NewClient(&sunlight.ClientConfig{
		MonitoringPrefix: t.scheme + "://" + t.dir,
		PublicKey:        ld.Key.Public(),
	})
	if err != nil {
		restore()
		return nil, nil, err
	}
	return c, func() int { restore(); return -1 }, nil
}
