SPECIFICATION MCSpec
CONSTANTS
  TW = 2
  Guards = {"leafhash", "index", "logid", "ts", "sig", "cpsig"}
  Sizes = {3}
INVARIANTS InvSound
CHECK_DEADLOCK FALSE
