package certs

import (
	"bytes"
	"crypto/sha256"
	"crypto/x509"
	"testing"
)

// Sanity of the factory and of the derivation against each other and against
// crypto/x509 (the real check of the derivation is C09, where the real log and
// TLC compare it with certificate-transparency-go on every case of the table).
func TestFactoryAndDerivation(t *testing.T) {
	root := NewRoot("Test Root", CAOptions{})
	inter := root.NewIntermediate("Test Intermediate", CAOptions{EKU: ServerAuth})
	pre := inter.NewPreIssuer("Test Preissuer", CAOptions{})

	// chains verify with the standard library
	pool := x509.NewCertPool()
	pool.AddCert(root.Cert)
	ipool := x509.NewCertPool()
	ipool.AddCert(inter.Cert)
	final := inter.Issue(LeafOptions{EKU: ServerAuth})
	if _, err := final.Cert.Verify(x509.VerifyOptions{Roots: pool, Intermediates: ipool, KeyUsages: ServerAuth}); err != nil {
		t.Fatalf("final certificate does not verify: %v", err)
	}
	if got := final.Chain(false); len(got) != 2 || !bytes.Equal(got[1], inter.DER) {
		t.Fatalf("Chain(false): %d certificates", len(got))
	}
	if got := final.FullChain(); len(got) != 3 || !bytes.Equal(got[2], root.DER) {
		t.Fatalf("FullChain: %d certificates", len(got))
	}

	e, err := DeriveEntry(final.FullChain())
	if err != nil || e.IsPrecert || !bytes.Equal(e.Logged, final.DER) || len(e.Issuers) != 2 || e.IssuerPos != 0 {
		t.Fatalf("x509 entry: %+v %v", e, err)
	}

	// precertificate issued by the intermediate itself
	p1 := inter.Issue(LeafOptions{EKU: ServerAuth, Precert: true})
	e, err = DeriveEntry(p1.FullChain())
	if err != nil || !e.IsPrecert || e.PreIssued || e.IssuerPos != 1 {
		t.Fatalf("precert entry: %+v %v", e, err)
	}
	if e.IssuerKeyHash != sha256.Sum256(inter.Cert.RawSubjectPublicKeyInfo) {
		t.Fatal("issuer key hash is not the intermediate's")
	}
	tbs, err := SplitTBS(e.Logged)
	if err != nil || tbs.HasExt(OIDPoison) {
		t.Fatalf("defanged TBS: %v, poison %v", err, tbs != nil && tbs.HasExt(OIDPoison))
	}
	if !bytes.Equal(tbs.Elems[tbs.Issuer].FullBytes, inter.Cert.RawSubject) {
		t.Fatal("issuer of the defanged TBS changed without a preissuer")
	}
	// removing the poison is the only difference: putting the raw TBS through
	// BuildTBS without changes reproduces it byte for byte
	orig, _ := SplitCertificate(p1.DER)
	same, err := orig.BuildTBS(Rewrite{})
	if err != nil || !bytes.Equal(same, p1.Cert.RawTBSCertificate) {
		t.Fatal("BuildTBS without changes is not the identity")
	}

	// precertificate issued by a precertificate signing certificate
	p2 := pre.Issue(LeafOptions{EKU: ServerAuth, Precert: true})
	if p2.RealIssuer() != inter {
		t.Fatal("RealIssuer")
	}
	e, err = DeriveEntry(p2.FullChain())
	if err != nil || !e.IsPrecert || !e.PreIssued || e.IssuerPos != 2 || len(e.Issuers) != 3 {
		t.Fatalf("pre-issued entry: %+v %v", e, err)
	}
	if e.IssuerKeyHash != sha256.Sum256(inter.Cert.RawSubjectPublicKeyInfo) {
		t.Fatal("issuer key hash is not the final issuer's")
	}
	tbs, err = SplitTBS(e.Logged)
	if err != nil || tbs.HasExt(OIDPoison) {
		t.Fatal("defanged TBS of pre-issued precertificate")
	}
	if !bytes.Equal(tbs.Elems[tbs.Issuer].FullBytes, inter.Cert.RawSubject) {
		t.Fatal("issuer not rewritten to the final issuer")
	}
	// a final certificate with that TBS would be one issued by inter: its
	// authority key identifier is inter's subject key identifier
	exts, _ := tbs.Extensions()
	found := false
	for _, x := range exts {
		if x.ID.Equal(oidAKI) {
			found = bytes.HasSuffix(x.Value, inter.Cert.SubjectKeyId) && len(x.Value) == len(inter.Cert.SubjectKeyId)+4
		}
	}
	if !found {
		t.Fatal("authority key identifier not rewritten to the final issuer's key")
	}
	for _, k := range []GarbageKind{GarbageRandom, GarbageTruncated, GarbageBadLength, GarbageNotCert} {
		if _, err := x509.ParseCertificate(Garbage(k, final.DER)); err == nil {
			t.Fatalf("garbage kind %d parses", k)
		}
	}
}
