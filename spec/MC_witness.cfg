\* add-checkpoint only: two concurrent requests at a time, forks, sizes up to 5, two faults, two
\* restarts (1.08 M distinct states, about 2.5 min). Three concurrent requests do not finish:
\* 19 M distinct states and growing after 15 min even with sizes up to 3.
SPECIFICATION Spec
CONSTANTS
  Reqs = {"r1", "r2"}
  MaxN = 5
  ForkPoint = 2
  MaxFaults = 2
  MaxRestarts = 2
  WithMirror = FALSE
  TW = 2
INVARIANTS CosignedChain RecordedBeforeReleased PublishedWasRecorded
PROPERTIES RecordChain AcceptRule
CHECK_DEADLOCK FALSE
