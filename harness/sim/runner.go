package sim

import (
	"fmt"
	"math/rand"
	"os"
	"strconv"
	"strings"
	"testing"
	"testing/synctest"
)

// Runner executes scenarios, each in its own synctest bubble, and appends their
// abstract traces to the corpus file.
type Runner struct {
	T       *testing.T
	Out     string
	Tier    string
	Seed    int64
	Shard   int
	Shards  int
	Only    string // substring filter on scenario names
	Count   int
	Ran     int
	Errors  []string
	Rand    *rand.Rand
	DumpRaw bool
	Events  int
}

func NewRunner(t *testing.T) *Runner {
	r := &Runner{T: t, Out: os.Getenv("VERIF_OUT"), Tier: os.Getenv("VERIF_TIER"), Shards: 1}
	if r.Tier == "" {
		r.Tier = "quick"
	}
	r.Seed, _ = strconv.ParseInt(os.Getenv("VERIF_SEED"), 10, 64)
	if sh := os.Getenv("VERIF_SHARD"); sh != "" {
		fmt.Sscanf(sh, "%d/%d", &r.Shard, &r.Shards)
	}
	r.Only = os.Getenv("VERIF_ONLY")
	r.DumpRaw = os.Getenv("VERIF_DUMP_RAW") != ""
	r.Rand = rand.New(rand.NewSource(r.Seed + 1))
	return r
}

func (r *Runner) Thorough() bool { return r.Tier == "thorough" }

// Mine reports whether the next scenario belongs to this shard; it always
// advances the counter, so all shards agree on the numbering.
func (r *Runner) mine(name string) bool {
	r.Count++
	if r.Only != "" && !strings.Contains(name, r.Only) {
		return false
	}
	return (r.Count-1)%r.Shards == r.Shard
}

// Scenario runs body in a fresh bubble and world and records its trace. always
// forces execution in every shard (dry runs whose result later enumeration
// depends on).
func (r *Runner) Scenario(name string, always bool, body func(w *World) error) {
	mine := r.mine(name)
	if !mine && !always {
		return
	}
	r.Ran++
	ok := r.T.Run(strings.ReplaceAll(name, "/", "_"), func(t *testing.T) {
		synctest.Test(t, func(t *testing.T) {
			w := NewWorld(t)
			var err error
			func() {
				defer func() {
					if p := recover(); p != nil {
						err = fmt.Errorf("harness panic: %v", p)
					}
				}()
				err = body(w)
			}()
			w.Cleanup()
			meta := map[string]any{"seed": r.Seed, "tier": r.Tier, "harnessError": ""}
			for k, v := range w.Info {
				meta[k] = v
			}
			if err != nil {
				meta["harnessError"] = err.Error()
				r.Errors = append(r.Errors, name+": "+err.Error())
			}
			if mine {
				recs := w.Finish(name, meta)
				r.Events += len(recs)
				if r.Out != "" {
					if err := WriteNDJSON(r.Out, recs); err != nil {
						t.Fatal(err)
					}
				}
				if r.DumpRaw {
					for _, s := range w.RawSummary() {
						t.Log(s)
					}
				}
			}
		})
	})
	if !ok {
		r.Errors = append(r.Errors, name+": test failed")
	}
}

// ---------------------------------------------------------------------------
// scenario building blocks

type warmSnap struct {
	objs    map[string]*object
	lock    map[[32]byte][]byte
	cache   []byte
	raw     []*Raw
	seq     int
	entries map[[32]byte]*Entry
	alt     map[[32]byte][]*Entry
	entSeq  int
	subSeq  int
	warm    []byte
	clock   int64
	subs    []*Sub
}

var warmCache = map[string]*warmSnap{}

// Setup creates a log, loads instance A, sequences `base` warm-up entries in one
// quiet round (entry shapes mixed: certificates and precertificates, 0-2
// issuers), marks the warm-up tree and closes the gates.
func Setup(w *World, base int, poolSize int) (*Inc, error) {
	w.PoolSize = 0
	key := fmt.Sprint(base)
	if s, ok := warmCache[key]; ok {
		w.mu.Lock()
		for k, v := range s.objs {
			w.objs[k] = &object{data: v.data, imm: v.imm}
		}
		for k, v := range s.lock {
			w.lock[k] = v
		}
		w.raw = append(w.raw, s.raw...)
		w.seq = s.seq
		for k, v := range s.entries {
			w.entries[k] = v
		}
		for k, v := range s.alt {
			w.altEntries[k] = v
		}
		w.entSeq, w.subSeq, w.warm, w.clock, w.lastClock = s.entSeq, s.subSeq, s.warm, s.clock, s.clock
		w.warmSubs = s.subs
		w.mu.Unlock()
		w.PoolSize = poolSize
		a := w.NewInc("A")
		os.WriteFile(a.CachePath(), s.cache, 0644)
		w.Quiet = true
		err := a.Load(map[string]bool{"faultFree": true, "untampered": true, "clockOk": true, "exclusive": true})
		w.Quiet = false
		if err != nil {
			return nil, fmt.Errorf("setup load: %w", err)
		}
		w.Gate(true)
		return a, nil
	}
	a0 := w.NewInc("A")
	if err := a0.Create(); err != nil {
		return nil, fmt.Errorf("setup create: %w", err)
	}
	if err := a0.Load(map[string]bool{"faultFree": true, "untampered": true, "clockOk": true, "exclusive": true}); err != nil {
		return nil, fmt.Errorf("setup load: %w", err)
	}
	if base > 0 {
		w.Quiet = true
		for i := 0; i < base; i++ {
			var iss []string
			switch i % 4 {
			case 1:
				iss = []string{"X"}
			case 2:
				iss = []string{"X", "Y"}
			}
			if i%5 == 4 {
				a0.Submit(w.RealEntry(fmt.Sprintf("w%d", i), i%3 == 0, iss...), false)
			} else {
				a0.Submit(w.SynthEntry(fmt.Sprintf("w%d", i), i%3 == 0, iss...), false)
			}
		}
		if err := a0.Round(); err != nil {
			return nil, fmt.Errorf("setup round: %w", err)
		}
		w.Settle()
		w.Quiet = false
	}
	w.MarkWarm()
	a0.CloseCache()
	w.mu.Lock()
	a0.dead = true
	delete(w.byLog, a0.Log)
	a0.Log = nil
	s := &warmSnap{objs: map[string]*object{}, lock: map[[32]byte][]byte{}, entries: map[[32]byte]*Entry{}, alt: map[[32]byte][]*Entry{}}
	for k, v := range w.objs {
		s.objs[k] = v
	}
	for k, v := range w.lock {
		s.lock[k] = v
	}
	s.raw = append(s.raw, w.raw...)
	s.seq = w.seq
	for k, v := range w.entries {
		s.entries[k] = v
	}
	for k, v := range w.altEntries {
		s.alt[k] = v
	}
	s.entSeq, s.subSeq, s.warm, s.clock = w.entSeq, w.subSeq, w.warm, w.clock
	s.subs = w.warmSubs
	s.cache, _ = os.ReadFile(a0.CachePath())
	w.mu.Unlock()
	warmCache[key] = s
	w.PoolSize = poolSize
	a := w.NewInc("A")
	a.Gen = 0
	w.Quiet = true
	err := a.Load(map[string]bool{"faultFree": true, "untampered": true, "clockOk": true, "exclusive": true})
	w.Quiet = false
	if err != nil {
		return nil, fmt.Errorf("setup reload: %w", err)
	}
	w.Gate(true)
	return a, nil
}

var allFlags = map[string]bool{"faultFree": true, "untampered": true, "clockOk": true, "exclusive": true}

func isIssuerOp(op *Op) bool {
	return (op.Kind == "Fetch" || op.Kind == "Upload") && KeyClass(op.Key) == "issuer"
}

// SubmitDriven submits and releases the submitter's own issuer operations until
// addLeafToPool has returned. Other parked operations are left alone.
func (w *World) SubmitDriven(inc *Inc, e *Entry, low bool) *Sub {
	s := inc.Submit(e, low)
	for i := 0; i < 1000; i++ {
		w.Settle()
		if ret, _, _ := w.SubState(s); ret {
			return s
		}
		var op *Op
		for _, p := range w.Pending() {
			if p.Inc == inc && isIssuerOp(p) {
				op = p
				break
			}
		}
		if op == nil {
			return s
		}
		w.Release(op, OK)
	}
	return s
}

// Step is one scheduling decision: which of the (sorted) pending operations of
// an instance to release, and how.
type Step struct {
	Pick int
	Out  Outcome
}

// PendingOf returns the pending operations of one incarnation, excluding a
// concurrent submitter's issuer operations.
func (w *World) PendingOf(inc *Inc) []*Op {
	var out []*Op
	for _, p := range w.Pending() {
		if p.Inc == inc {
			out = append(out, p)
		}
	}
	return out
}

// RunSteps drives a task for at most n FIFO/ok steps; it returns the number of
// steps taken and whether the task finished.
func (w *World) RunSteps(inc *Inc, t *Task, n int) (int, bool) {
	for i := 0; i < n; i++ {
		w.Settle()
		if w.IsDone(t) {
			return i, true
		}
		p := w.PendingOf(inc)
		if len(p) == 0 {
			return i, w.IsDone(t)
		}
		w.Release(p[0], OK)
	}
	w.Settle()
	return n, w.IsDone(t)
}

// Finish drives a task to completion FIFO/ok.
func (w *World) FinishTask(inc *Inc, t *Task) bool {
	_, done := w.RunSteps(inc, t, 100000)
	return done
}

// OpList is the dry-run record of a task: the class of the operation released
// at each step and how many operations were parked at that step.
type OpInfo struct {
	Class    string
	Key      string
	Parallel int
}

func (w *World) DryRun(inc *Inc, t *Task) ([]OpInfo, bool) {
	var ops []OpInfo
	for i := 0; i < 100000; i++ {
		w.Settle()
		if w.IsDone(t) {
			return ops, true
		}
		p := w.PendingOf(inc)
		if len(p) == 0 {
			return ops, false
		}
		ops = append(ops, OpInfo{p[0].Class(), p[0].Key, len(p)})
		w.Release(p[0], OK)
	}
	return ops, false
}

// Recover restarts instance name with gates open, requires nothing by itself
// (the LoadStart flags tell the specification what must hold), resubmits the
// given entries plus a fresh one, runs a round that must succeed and asks for
// all of them to be acknowledged.
func Recover(w *World, name string, resubmit []*Entry, tag string) (*Inc, error) {
	w.Gate(false)
	b := w.NewInc(name)
	if err := b.Load(allFlags); err != nil {
		return nil, nil // the specification judges the refusal
	}
	var subs []*Sub
	for _, e := range resubmit {
		subs = append(subs, b.Submit(e, false))
	}
	subs = append(subs, b.Submit(w.SynthEntry("fresh-"+tag, false, "Z"), false))
	w.Settle()
	err := b.RoundMust()
	w.Settle()
	if err == nil {
		w.Check("allAcked", subs...)
	}
	w.Quiesce()
	return b, nil
}

func newRand(seed int64) *rand.Rand { return rand.New(rand.NewSource(seed)) }
