\* without the fsync of the new directory itself: holds in this model (WriteFile syncs the directory later), kept as a sanity configuration
SPECIFICATION Spec
CONSTANTS
  FileSync = TRUE
  DirSync = TRUE
  NewDirSync = FALSE
  ParentSync = TRUE
  RenameFirst = FALSE
  InPlace = FALSE
  NUploads = 2
INVARIANTS Follows FactorOK Atomic Durable
CHECK_DEADLOCK FALSE
