SPECIFICATION Spec
CONSTANTS MaxSize = 4
          MaxCrashes = 3
INVARIANTS TypeOK PubBehindLock FinalIsCommitted NothingAfterFinal NeverDead
PROPERTIES FinalForEver
CHECK_DEADLOCK FALSE
