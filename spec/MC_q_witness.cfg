\* add-checkpoint only: two requests, forks, one fault, one restart
SPECIFICATION Spec
CONSTANTS
  Reqs = {"r1", "r2"}
  MaxN = 4
  ForkPoint = 2
  MaxFaults = 1
  MaxRestarts = 1
  WithMirror = FALSE
  TW = 2
INVARIANTS CosignedChain RecordedBeforeReleased PublishedWasRecorded
PROPERTIES RecordChain AcceptRule
CHECK_DEADLOCK FALSE
