package aftersun

import (
	"crypto/rand"
	"fmt"
	"path/filepath"
	"strings"
	"sync"

	"filippo.io/torchwood"
	"golang.org/x/mod/sumdb/note"
	"golang.org/x/mod/sumdb/tlog"
)

// MirrorBase is a real Merkle tree over the records "record i", from which
// mirror directories (c2sp.org/tlog-mirror: hash tiles and entry bundles of
// c2sp.org/tlog-tiles under mirror/<origin hash>/) of any smaller size are
// written.
type MirrorBase struct {
	n      int64
	hashes []tlog.Hash
}

var (
	mirrorOnce sync.Once
	mirrorBase *MirrorBase
)

func record(i int64) []byte { return fmt.Appendf(nil, "record %d", i) }

func GetMirrorBase() *MirrorBase {
	mirrorOnce.Do(func() {
		mb := &MirrorBase{n: 66200}
		hr := tlog.HashReaderFunc(func(indexes []int64) ([]tlog.Hash, error) {
			out := make([]tlog.Hash, len(indexes))
			for i, x := range indexes {
				out[i] = mb.hashes[x]
			}
			return out, nil
		})
		for i := int64(0); i < mb.n; i++ {
			mb.hashes = append(mb.hashes, must(tlog.StoredHashes(i, record(i), hr))...)
		}
		mirrorBase = mb
	})
	return mirrorBase
}

func (mb *MirrorBase) reader() tlog.HashReader {
	return tlog.HashReaderFunc(func(indexes []int64) ([]tlog.Hash, error) {
		out := make([]tlog.Hash, len(indexes))
		for i, x := range indexes {
			if x >= int64(len(mb.hashes)) {
				return nil, fmt.Errorf("no stored hash %d", x)
			}
			out[i] = mb.hashes[x]
		}
		return out, nil
	})
}

// Write writes the tiles of every step of the growth schedule sizes (so that
// the partial tiles of the intermediate sizes are left behind as a mirror
// leaves them) under wdir/mirror/<hash of origin>/, and a checkpoint of size
// cpSize (the last size, or an earlier one: tiles are uploaded before the
// checkpoint is). It returns the mirror's directory.
func (mb *MirrorBase) Write(wdir, origin string, sizes []int64, cpSize int64) (string, error) {
	dir := filepath.Join(wdir, "mirror", OriginHash(origin))
	hr := mb.reader()
	prev := int64(0)
	for _, s := range sizes {
		if s > mb.n || s < prev {
			return "", fmt.Errorf("bad mirror schedule")
		}
		for _, t := range tlog.NewTiles(torchwood.TileHeight, prev, s) {
			data, err := tlog.ReadTileData(t, hr)
			if err != nil {
				return "", err
			}
			if err := writeFile(filepath.Join(dir, TileID{"hash", t.L, t.N, t.W}.Path()), data, 0o444, true); err != nil {
				return "", err
			}
			if t.L == 0 {
				var bundle []byte
				for i := t.N * TW; i < t.N*TW+int64(t.W); i++ {
					bundle = must(torchwood.AppendTileEntry(bundle, record(i)))
				}
				p := strings.Replace(TileID{"data", 0, t.N, t.W}.Path(), "tile/data/", "tile/entries/", 1)
				if err := writeFile(filepath.Join(dir, p), bundle, 0o444, true); err != nil {
					return "", err
				}
			}
		}
		prev = s
	}
	root, err := tlog.TreeHash(cpSize, hr)
	if err != nil {
		return "", err
	}
	skey, _, err := note.GenerateKey(rand.Reader, origin)
	if err != nil {
		return "", err
	}
	signer, err := note.NewSigner(skey)
	if err != nil {
		return "", err
	}
	text := torchwood.Checkpoint{Origin: origin, Tree: tlog.Tree{N: cpSize, Hash: root}}.String()
	cp, err := note.Sign(&note.Note{Text: text}, signer)
	if err != nil {
		return "", err
	}
	if err := writeFile(filepath.Join(dir, "checkpoint"), cp, 0o644, false); err != nil {
		return "", err
	}
	return dir, nil
}
