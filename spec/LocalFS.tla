------------------------------ MODULE LocalFS ------------------------------
(***************************************************************************)
(* A POSIX namespace with a durability model (property C13).               *)
(*                                                                         *)
(* A file system state S is a record                                       *)
(*   ino   inode -> [kind, data, ddata, mode, imm]                         *)
(*           data  = what a reader sees now (volatile view)                *)
(*           ddata = what is known to be on stable storage                 *)
(*   vdir  directory inode -> (name -> inode)   volatile entries           *)
(*   ddir  directory inode -> (name -> inode)   durable entries            *)
(*   pend  directory inode -> sequence of entry operations performed since *)
(*           the directory was last fsync'ed  (vdir = ddir + pend)         *)
(*   fds   descriptor -> [i, path]                                         *)
(*   next  next unused inode number;  ok  FALSE once a recorded system     *)
(*           call succeeded that the model cannot follow                   *)
(*                                                                         *)
(* The operators below are the transition relation, one per system call    *)
(* (DESIGN.md appendix D), written as functions S -> S so that the same    *)
(* definitions serve the closed design model (LocalFSDesign.tla) and the   *)
(* replay of system calls recorded from the real LocalBackend              *)
(* (LocalFSTrace.tla).                                                     *)
(*                                                                         *)
(* PowerLoss (CrashStates) is the worst case in the style of ALICE         *)
(* (Pillai et al., OSDI 14): of every directory any subset of the          *)
(* un-synced entry operations survives, as long as an operation survives   *)
(* only together with all earlier operations on the same names; of every   *)
(* file with un-synced data the content is the complete new data, a part   *)
(* of it, nothing, or what was durable before.  fsync(file) makes data     *)
(* durable but no directory entry; fsync(dir) makes the entries of that    *)
(* directory durable but neither its own link in its parent nor any file   *)
(* data.  A directory whose link is lost loses its subtree (it is not      *)
(* reachable from the root any more).                                      *)
(***************************************************************************)
EXTENDS Integers, Sequences, FiniteSets, TLC

Put(f, k, v) == [x \in DOMAIN f \cup {k} |-> IF x = k THEN v ELSE f[x]]
Drop(f, k) == [x \in DOMAIN f \ {k} |-> f[x]]
NoFn == [x \in {} |-> 0]

Cont(id, n, st) == [id |-> id, len |-> n, st |-> st]
Absent == Cont("absent", 0, "full")
EmptyC == Cont("empty", 0, "full")
DirC == Cont("dir", 0, "full")
Partial(c) == Cont(c.id, c.len, "partial")
OtherC == Cont("other", 0, "other")

Root == 0
FrontP(p) == SubSeq(p, 1, Len(p) - 1)
LastP(p) == p[Len(p)]
IsPrefixP(a, b) == Len(a) <= Len(b) /\ SubSeq(b, 1, Len(a)) = a

FileIno(c) == [kind |-> "file", data |-> c, ddata |-> c, mode |-> 0, imm |-> FALSE]
DirIno == [kind |-> "dir", data |-> DirC, ddata |-> DirC, mode |-> 0, imm |-> FALSE]

Empty == [ino |-> (0 :> DirIno), vdir |-> (0 :> NoFn), ddir |-> (0 :> NoFn),
          pend |-> (0 :> <<>>), fds |-> NoFn, next |-> 1, ok |-> TRUE]

LinkOp(b, i) == [op |-> "link", a |-> "", b |-> b, i |-> i]
UnlinkOp(a) == [op |-> "unlink", a |-> a, b |-> "", i |-> -1]
RenameOp(a, b, i) == [op |-> "rename", a |-> a, b |-> b, i |-> i]
Names(o) == {o.a, o.b} \ {""}

RECURSIVE Walk(_, _, _, _, _)
Walk(S, view, p, i, k) ==
    IF k > Len(p) THEN i
    ELSE IF S.ino[i].kind # "dir" \/ p[k] \notin DOMAIN view[i] THEN -1
    ELSE Walk(S, view, p, view[i][p[k]], k + 1)

\* the inode a path names in the volatile view, or -1
Resolve(S, p) == Walk(S, S.vdir, p, Root, 1)
IsDir(S, i) == i >= 0 /\ S.ino[i].kind = "dir"
IsFile(S, i) == i >= 0 /\ S.ino[i].kind = "file"

\* what a reader of the path gets
ReadC(S, p) == LET i == Resolve(S, p) IN IF IsFile(S, i) THEN S.ino[i].data ELSE Absent

Diverged(S) == [S EXCEPT !.ok = FALSE]

SetEntry(S, d, name, i, o) ==
    [S EXCEPT !.vdir = Put(S.vdir, d, Put(S.vdir[d], name, i)),
              !.pend = Put(S.pend, d, Append(S.pend[d], o))]
DelEntry(S, d, name, o) ==
    [S EXCEPT !.vdir = Put(S.vdir, d, Drop(S.vdir[d], name)),
              !.pend = Put(S.pend, d, Append(S.pend[d], o))]

NewFile(S, d, name) ==
    LET n == S.next
        S1 == [S EXCEPT !.ino = Put(S.ino, n, FileIno(EmptyC)), !.next = n + 1]
    IN SetEntry(S1, d, name, n, LinkOp(name, n))

\* openat(path, flags) = fd
Open(S, p, flags, fd) ==
    LET i == Resolve(S, p) IN
    IF i >= 0 THEN
        LET S1 == IF "O_TRUNC" \in flags /\ IsFile(S, i)
                  THEN [S EXCEPT !.ino = Put(S.ino, i, [S.ino[i] EXCEPT !.data = EmptyC])]
                  ELSE S
        IN [S1 EXCEPT !.fds = Put(S.fds, fd, [i |-> i, path |-> p])]
    ELSE IF "O_CREAT" \in flags /\ Len(p) > 0 /\ IsDir(S, Resolve(S, FrontP(p))) THEN
        LET S1 == NewFile(S, Resolve(S, FrontP(p)), LastP(p))
        IN [S1 EXCEPT !.fds = Put(S1.fds, fd, [i |-> S.next, path |-> p])]
    ELSE Diverged(S)

Close(S, fd) == [S EXCEPT !.fds = Drop(S.fds, fd)]

\* write(fd, c): the whole content in one piece onto an empty file, otherwise
\* the result is some other content
WriteFd(S, fd, c) ==
    IF fd \notin DOMAIN S.fds \/ ~IsFile(S, S.fds[fd].i) THEN Diverged(S) ELSE
    LET i == S.fds[fd].i
        new == IF S.ino[i].data = EmptyC THEN c ELSE IF c = EmptyC THEN S.ino[i].data ELSE OtherC
    IN [S EXCEPT !.ino = Put(S.ino, i, [S.ino[i] EXCEPT !.data = new])]

\* fsync(fd) on a file: its data; on a directory: its entries, in order
FsyncFd(S, fd) ==
    IF fd \notin DOMAIN S.fds THEN Diverged(S) ELSE
    LET i == S.fds[fd].i IN
    IF S.ino[i].kind = "file"
    THEN [S EXCEPT !.ino = Put(S.ino, i, [S.ino[i] EXCEPT !.ddata = S.ino[i].data])]
    ELSE [S EXCEPT !.ddir = Put(S.ddir, i, S.vdir[i]), !.pend = Put(S.pend, i, <<>>)]

Mkdir(S, p) ==
    IF Len(p) = 0 \/ Resolve(S, p) >= 0 \/ ~IsDir(S, Resolve(S, FrontP(p))) THEN Diverged(S) ELSE
    LET n == S.next
        S1 == [S EXCEPT !.ino = Put(S.ino, n, DirIno), !.next = n + 1,
                        !.vdir = Put(S.vdir, n, NoFn), !.ddir = Put(S.ddir, n, NoFn),
                        !.pend = Put(S.pend, n, <<>>)]
    IN SetEntry(S1, Resolve(S, FrontP(p)), LastP(p), n, LinkOp(LastP(p), n))

\* renameat(p, q): one atomic entry operation when both names are in one
\* directory, otherwise an unlink in one and a link in the other directory
Rename(S, p, q) ==
    IF Len(p) = 0 \/ Len(q) = 0 THEN Diverged(S) ELSE
    LET i == Resolve(S, p)
        d1 == Resolve(S, FrontP(p))
        d2 == Resolve(S, FrontP(q)) IN
    IF i < 0 \/ ~IsDir(S, d2) THEN Diverged(S)
    ELSE IF d1 = d2 THEN
        [S EXCEPT !.vdir = Put(S.vdir, d1, Put(Drop(S.vdir[d1], LastP(p)), LastP(q), i)),
                  !.pend = Put(S.pend, d1, Append(S.pend[d1], RenameOp(LastP(p), LastP(q), i)))]
    ELSE SetEntry(DelEntry(S, d1, LastP(p), UnlinkOp(LastP(p))), d2, LastP(q), i, LinkOp(LastP(q), i))

Unlink(S, p) ==
    IF Len(p) = 0 \/ Resolve(S, p) < 0 THEN Diverged(S)
    ELSE DelEntry(S, Resolve(S, FrontP(p)), LastP(p), UnlinkOp(LastP(p)))

Fchmod(S, fd, m) ==
    IF fd \notin DOMAIN S.fds THEN Diverged(S) ELSE
    LET i == S.fds[fd].i IN [S EXCEPT !.ino = Put(S.ino, i, [S.ino[i] EXCEPT !.mode = m])]

SetFlags(S, fd, imm) ==
    IF fd \notin DOMAIN S.fds THEN Diverged(S) ELSE
    LET i == S.fds[fd].i IN [S EXCEPT !.ino = Put(S.ino, i, [S.ino[i] EXCEPT !.imm = imm])]

-----------------------------------------------------------------------------
\* Power loss

ClosedSubsets(ops) ==
    {X \in SUBSET DOMAIN ops :
        \A j \in X : \A i \in 1..(j - 1) : Names(ops[i]) \cap Names(ops[j]) # {} => i \in X}

ApplyOp(ents, o) ==
    IF o.op = "link" THEN Put(ents, o.b, o.i)
    ELSE IF o.op = "unlink" THEN Drop(ents, o.a)
    ELSE Put(Drop(ents, o.a), o.b, o.i)

RECURSIVE ApplyOps(_, _, _, _)
ApplyOps(ents, ops, X, k) ==
    IF k > Len(ops) THEN ents
    ELSE ApplyOps(IF k \in X THEN ApplyOp(ents, ops[k]) ELSE ents, ops, X, k + 1)

DataChoices(n) ==
    {n.data, n.ddata, EmptyC} \cup (IF n.data.len >= 2 /\ n.data.st = "full" THEN {Partial(n.data)} ELSE {})

PendingDirs(S) == {d \in DOMAIN S.pend : S.pend[d] # <<>>}
DirtyFiles(S) == {f \in DOMAIN S.ino : S.ino[f].kind = "file" /\ S.ino[f].data # S.ino[f].ddata}

\* choice functions of a family of sets
Choices(D, F(_)) ==
    LET U == UNION {F(d) : d \in D} IN {g \in [D -> U] : \A d \in D : g[d] \in F(d)}

AfterLoss(S, dc, fc) ==
    LET nd == [d \in DOMAIN S.ddir |->
                 IF d \in DOMAIN dc THEN ApplyOps(S.ddir[d], S.pend[d], dc[d], 1) ELSE S.ddir[d]]
    IN [S EXCEPT !.ino = [f \in DOMAIN S.ino |->
                            IF f \in DOMAIN fc THEN [S.ino[f] EXCEPT !.data = fc[f], !.ddata = fc[f]]
                            ELSE S.ino[f]],
                 !.vdir = nd, !.ddir = nd,
                 !.pend = [d \in DOMAIN S.pend |-> <<>>],
                 !.fds = NoFn]

\* every state the machine can come back in after losing power in state S
CrashStates(S) ==
    LET CS(d) == ClosedSubsets(S.pend[d])
        DC(f) == DataChoices(S.ino[f])
    IN {AfterLoss(S, dc, fc) : dc \in Choices(PendingDirs(S), CS), fc \in Choices(DirtyFiles(S), DC)}

-----------------------------------------------------------------------------
\* What a read of one path can yield after a power loss, computed without
\* building the product CrashStates(S).  Directories and files are chosen
\* independently, so the outcomes for ONE path are: in every directory on the
\* way, the entry after any prefix of the pending operations that touch that
\* name (operations on one name survive as a prefix of their order -- the
\* closure rule -- and every prefix is achievable); for the inode reached, any
\* of its DataChoices.
\*   PossibleReads(S, p) = {ReadC(X, p) : X \in CrashStates(S)}
\* is checked by TLC as the invariant FactorOK of LocalFSDesign.

Touching(ops, name) == SelectSeq(ops, LAMBDA o : name \in Names(o))
EntryAfter(o, name, before) == IF o.b = name THEN o.i ELSE -1   \* link/rename to name: the inode; unlink/rename away: none
RECURSIVE EntryVals(_, _, _, _)
EntryVals(ops, name, k, cur) ==
    IF k > Len(ops) THEN {cur}
    ELSE {cur} \cup EntryVals(ops, name, k + 1, EntryAfter(ops[k], name, cur))
EntryChoices(S, d, name) ==
    EntryVals(Touching(S.pend[d], name), name, 1,
              IF name \in DOMAIN S.ddir[d] THEN S.ddir[d][name] ELSE -1)

RECURSIVE PossibleInos(_, _, _, _)
PossibleInos(S, p, i, k) ==
    IF k > Len(p) THEN {i}
    ELSE IF i < 0 \/ S.ino[i].kind # "dir" THEN {-1}
    ELSE UNION {PossibleInos(S, p, j, k + 1) : j \in EntryChoices(S, i, p[k])}

PossibleReads(S, p) ==
    UNION {IF i >= 0 /\ S.ino[i].kind = "file"
           THEN (IF S.ino[i].data = S.ino[i].ddata THEN {S.ino[i].data} ELSE DataChoices(S.ino[i]))
           ELSE {Absent} :
           i \in PossibleInos(S, p, Root, 1)}

\* the product is small enough to enumerate (used where whole crash states are wanted)
RECURSIVE SumLen(_, _)
SumLen(f, D) == IF D = {} THEN 0 ELSE LET d == CHOOSE x \in D : TRUE IN Len(f[d]) + SumLen(f, D \ {d})
SmallLoss(S) == SumLen(S.pend, DOMAIN S.pend) <= 6 /\ Cardinality(DirtyFiles(S)) <= 3

\* the reachable tree as a set of <<path, kind, content>>
RECURSIVE TreeFrom(_, _, _)
TreeFrom(S, i, p) ==
    UNION {LET j == S.vdir[i][n] q == Append(p, n) IN
           IF S.ino[j].kind = "dir" THEN {<<q, "dir", DirC>>} \cup TreeFrom(S, j, q)
           ELSE {<<q, "file", S.ino[j].data>>} : n \in DOMAIN S.vdir[i]}
Tree(S) == TreeFrom(S, Root, <<>>)

\* a state from a list of durable entries [path, kind, c], parents first
RECURSIVE Build(_, _, _)
Build(S, ents, k) ==
    IF k > Len(ents) THEN S ELSE
    LET e == ents[k]
        d == Resolve(S, FrontP(e.path))
        n == S.next
        S1 == IF e.kind = "dir"
              THEN [S EXCEPT !.ino = Put(S.ino, n, DirIno), !.next = n + 1,
                             !.vdir = Put(Put(S.vdir, n, NoFn), d, Put(S.vdir[d], LastP(e.path), n)),
                             !.ddir = Put(Put(S.ddir, n, NoFn), d, Put(S.ddir[d], LastP(e.path), n)),
                             !.pend = Put(S.pend, n, <<>>)]
              ELSE [S EXCEPT !.ino = Put(S.ino, n, FileIno(e.c)), !.next = n + 1,
                             !.vdir = Put(S.vdir, d, Put(S.vdir[d], LastP(e.path), n)),
                             !.ddir = Put(S.ddir, d, Put(S.ddir[d], LastP(e.path), n))]
    IN Build(S1, ents, k + 1)
=============================================================================
