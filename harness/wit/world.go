// Package wit binds the TLA+ specifications of the witness / mirror
// (spec/Witness.tla, spec/WitnessTraceA.tla) to the real code in
// /repo/internal/witness: gated, tracing lock and object stores, a
// harness-owned log with forks, and scenario drivers that record ndjson traces.
package wit

import (
	"bytes"
	"context"
	"crypto/ed25519"
	"crypto/rand"
	"crypto/sha256"
	"encoding/asn1"
	"errors"
	"fmt"
	"io"
	"log/slog"
	"net/http"
	"net/http/httptest"
	"os"
	"path/filepath"
	"regexp"
	"runtime"
	"sort"
	"strings"
	"sync"
	"time"

	"filippo.io/mldsa"
	"filippo.io/sunlight/internal/ctlog"
	"filippo.io/sunlight/internal/witness"
	"github.com/prometheus/client_golang/prometheus"
)

type Outcome int

const (
	OK Outcome = iota
	Fail
	FailApplied
	Dead
)

func (o Outcome) String() string { return [...]string{"ok", "fail", "failapplied", "dead"}[o] }

type ctxKey struct{}

// Op is a parked lock / storage operation.
type Op struct {
	Inc   *Inc
	Req   int
	Kind  string // LockFetch LockReplace LockCreate Upload Fetch
	Key   string // abstract key, e.g. "pending:<origin>", "mirror:<origin>", "config", or the object key
	ch    chan Outcome
	taken bool
}

func (o *Op) String() string { return fmt.Sprintf("r%d:%s %s", o.Req, o.Kind, o.Key) }

type Raw struct {
	Seq     int
	Ev      string
	Req     int
	Gen     int
	Kind    string
	Key     string
	Data    []byte
	Old     []byte
	New     []byte
	Applied bool
	OK      bool
	Found   bool
	Imm     bool
	Status  int
	Body    []byte
	Header  http.Header
	Desc    map[string]any // abstract request descriptor
	Note    string
}

type World struct {
	mu      sync.Mutex
	objs    map[string][]byte
	lock    map[[32]byte][]byte
	lockKey map[[32]byte]string // abstract names of lock keys
	raw     []*Raw
	seq     int
	pending []*Op
	open    bool
	Dir     string

	Name       string
	MirrorName string
	KeyEd      ed25519.PrivateKey
	KeyML      *mldsa.PrivateKey
	KeyMirror  *mldsa.PrivateKey

	incs   []*Inc
	reqSeq int
	gids   map[int64]bool
	Logs   map[string]*SimLog
	Info   map[string]any
}

var (
	sharedEd     ed25519.PrivateKey
	sharedML     *mldsa.PrivateKey
	sharedMirror *mldsa.PrivateKey
	foreignML    *mldsa.PrivateKey
)

func keys() {
	if sharedEd != nil {
		return
	}
	_, sharedEd, _ = ed25519.GenerateKey(rand.Reader)
	sharedML, _ = mldsa.GenerateKey(mldsa.MLDSA44())
	sharedMirror, _ = mldsa.GenerateKey(mldsa.MLDSA44())
	foreignML, _ = mldsa.GenerateKey(mldsa.MLDSA44())
}

func NewWorld(dir string) *World {
	keys()
	w := &World{objs: map[string][]byte{}, lock: map[[32]byte][]byte{}, lockKey: map[[32]byte]string{},
		open: true, Dir: dir, Name: "example.com/witness", MirrorName: "example.com/mirror",
		KeyEd: sharedEd, KeyML: sharedML, KeyMirror: sharedMirror, gids: map[int64]bool{},
		Logs: map[string]*SimLog{}, Info: map[string]any{}}
	return w
}

func (w *World) emit(r *Raw) {
	w.seq++
	r.Seq = w.seq
	w.raw = append(w.raw, r)
}

func (w *World) Emit(r *Raw) {
	w.mu.Lock()
	w.emit(r)
	w.mu.Unlock()
}

func (w *World) Gate(closed bool) {
	w.mu.Lock()
	w.open = !closed
	w.mu.Unlock()
}

// lock-store key derivations of internal/witness (domain separation strings of
// the tlog-witness implementation), recomputed here so that the harness can name
// the registers it observes.
func (w *World) lockName(id [32]byte) string {
	if n, ok := w.lockKey[id]; ok {
		return n
	}
	return fmt.Sprintf("other:%x", id[:4])
}

func (w *World) registerOrigin(origin string) {
	pub := w.KeyEd.Public().(ed25519.PublicKey)
	mk := func(dom string, suffix string) [32]byte {
		h := sha256.New()
		h.Write(asn1.NullBytes)
		h.Write([]byte(dom))
		h.Write(pub)
		h.Write([]byte(suffix))
		return [32]byte(h.Sum(nil))
	}
	w.lockKey[mk("witness log\n", origin)] = "pending:" + origin
	w.lockKey[mk("mirror log\n", origin)] = "mirror:" + origin
	w.lockKey[mk("witness config\n", "")] = "config"
}

// Inc is one process lifetime of the witness.
type Inc struct {
	W    *World
	Gen  int
	Wit  *witness.Witness
	dead bool
}

func (w *World) park(op *Op) Outcome {
	w.mu.Lock()
	if op.Inc.dead {
		w.mu.Unlock()
		return Dead
	}
	if w.open {
		w.mu.Unlock()
		return OK
	}
	op.ch = make(chan Outcome)
	w.pending = append(w.pending, op)
	w.mu.Unlock()
	return <-op.ch
}

var errInjected = errors.New("verif: injected failure")
var errDead = errors.New("verif: process is dead")

func reqOf(ctx context.Context) int {
	if v, ok := ctx.Value(ctxKey{}).(int); ok {
		return v
	}
	return 0
}

type backend struct{ inc *Inc }

func (b *backend) Upload(ctx context.Context, key string, data []byte, opts *ctlog.UploadOptions) error {
	w := b.inc.W
	op := &Op{Inc: b.inc, Req: reqOf(ctx), Kind: "Upload", Key: key}
	out := w.park(op)
	if out == Dead {
		return errDead
	}
	w.mu.Lock()
	defer w.mu.Unlock()
	if b.inc.dead {
		return errDead
	}
	r := &Raw{Ev: "Upload", Req: op.Req, Gen: b.inc.Gen, Key: key, Data: data, Applied: out != Fail, OK: out == OK,
		Imm: opts != nil && opts.Immutable}
	if old, ok := w.objs[key]; ok {
		r.Found = true
		r.Old = old
	}
	if r.Applied {
		w.objs[key] = bytes.Clone(data)
	}
	w.emit(r)
	if out == OK {
		return nil
	}
	return errInjected
}

func (b *backend) Fetch(ctx context.Context, key string) ([]byte, error) {
	w := b.inc.W
	op := &Op{Inc: b.inc, Req: reqOf(ctx), Kind: "Fetch", Key: key}
	out := w.park(op)
	if out == Dead {
		return nil, errDead
	}
	w.mu.Lock()
	defer w.mu.Unlock()
	if b.inc.dead {
		return nil, errDead
	}
	r := &Raw{Ev: "Fetch", Req: op.Req, Gen: b.inc.Gen, Key: key, OK: out == OK}
	defer w.emit(r)
	if out != OK {
		return nil, errInjected
	}
	d, ok := w.objs[key]
	if !ok {
		return nil, fmt.Errorf("verif: key %q not found", key)
	}
	r.Found = true
	r.Data = d
	return bytes.Clone(d), nil
}

func (b *backend) Discard(ctx context.Context, key string) error {
	w := b.inc.W
	w.mu.Lock()
	defer w.mu.Unlock()
	w.emit(&Raw{Ev: "Discard", Req: reqOf(ctx), Gen: b.inc.Gen, Key: key, Applied: true, OK: true})
	delete(w.objs, key)
	return nil
}

func (b *backend) Metrics() []prometheus.Collector { return nil }

type locked struct {
	id   [32]byte
	body []byte
}

func (c *locked) Bytes() []byte { return c.body }

type lockBackend struct{ inc *Inc }

func (b *lockBackend) Fetch(ctx context.Context, id [32]byte) (ctlog.LockedCheckpoint, error) {
	w := b.inc.W
	op := &Op{Inc: b.inc, Req: reqOf(ctx), Kind: "LockFetch", Key: w.lockName(id)}
	out := w.park(op)
	if out == Dead {
		return nil, errDead
	}
	w.mu.Lock()
	defer w.mu.Unlock()
	if b.inc.dead {
		return nil, errDead
	}
	r := &Raw{Ev: "LockFetch", Req: op.Req, Gen: b.inc.Gen, Key: op.Key, OK: out == OK}
	defer w.emit(r)
	if out != OK {
		return nil, errInjected
	}
	v, ok := w.lock[id]
	if !ok {
		return nil, ctlog.ErrLogNotFound
	}
	r.Found = true
	r.New = v
	return &locked{id, bytes.Clone(v)}, nil
}

func (b *lockBackend) Replace(ctx context.Context, old ctlog.LockedCheckpoint, new []byte) (ctlog.LockedCheckpoint, error) {
	w := b.inc.W
	o := old.(*locked)
	op := &Op{Inc: b.inc, Req: reqOf(ctx), Kind: "LockReplace", Key: w.lockName(o.id)}
	out := w.park(op)
	if out == Dead {
		return nil, errDead
	}
	w.mu.Lock()
	defer w.mu.Unlock()
	if b.inc.dead {
		return nil, errDead
	}
	cur, exists := w.lock[o.id]
	match := exists && bytes.Equal(cur, o.body)
	r := &Raw{Ev: "LockReplace", Req: op.Req, Gen: b.inc.Gen, Key: op.Key, Old: o.body, New: new, Found: match,
		Applied: out != Fail && match, OK: out == OK && match}
	if r.Applied {
		w.lock[o.id] = bytes.Clone(new)
	}
	w.emit(r)
	if r.OK {
		return &locked{o.id, bytes.Clone(new)}, nil
	}
	if out == OK {
		return nil, errors.New("verif: value has changed")
	}
	return nil, errInjected
}

func (b *lockBackend) Create(ctx context.Context, id [32]byte, new []byte) error {
	w := b.inc.W
	op := &Op{Inc: b.inc, Req: reqOf(ctx), Kind: "LockCreate", Key: w.lockName(id)}
	out := w.park(op)
	if out == Dead {
		return errDead
	}
	w.mu.Lock()
	defer w.mu.Unlock()
	if b.inc.dead {
		return errDead
	}
	_, exists := w.lock[id]
	r := &Raw{Ev: "LockCreate", Req: op.Req, Gen: b.inc.Gen, Key: op.Key, New: new, Found: exists,
		Applied: out != Fail && !exists, OK: out == OK && !exists}
	if r.Applied {
		if new == nil {
			new = []byte{}
		}
		w.lock[id] = bytes.Clone(new)
	}
	w.emit(r)
	if r.OK {
		return nil
	}
	if out == OK {
		return errors.New("verif: already exists")
	}
	return errInjected
}

// ---------------------------------------------------------------------------

// Start creates a witness incarnation on the world's stores (NewWitness) and
// pulls the log lists: origins in plain are witnessed, origins in mirrored are
// also mirrored.
func (w *World) Start(plain, mirrored []*SimLog) (*Inc, error) {
	inc := &Inc{W: w, Gen: len(w.incs)}
	w.mu.Lock()
	w.incs = append(w.incs, inc)
	for _, l := range append(append([]*SimLog{}, plain...), mirrored...) {
		w.registerOrigin(l.Origin)
		w.Logs[l.Origin] = l
	}
	w.registerOrigin("")
	w.emit(&Raw{Ev: "Start", Gen: inc.Gen})
	w.mu.Unlock()
	cfg := &witness.Config{Name: w.Name, KeyEd25519: w.KeyEd, KeyMLDSA44: w.KeyML, MirrorName: w.MirrorName,
		KeyMirror: w.KeyMirror, Backend: &backend{inc}, Lock: &lockBackend{inc},
		Log: slog.New(slog.NewTextHandler(io.Discard, nil))}
	if os.Getenv("VERIF_DEBUG_LOG") != "" {
		cfg.Log = slog.New(slog.NewTextHandler(os.Stderr, &slog.HandlerOptions{Level: slog.LevelDebug}))
	}
	wit, err := witness.NewWitness(context.Background(), cfg)
	if err != nil {
		return nil, err
	}
	inc.Wit = wit
	write := func(name string, logs []*SimLog) (string, error) {
		var b strings.Builder
		b.WriteString("logs/v0\n")
		for _, l := range logs {
			fmt.Fprintf(&b, "vkey %s\norigin %s\n", l.VKey, l.Origin)
		}
		p := filepath.Join(w.Dir, fmt.Sprintf("%s-%d.txt", name, inc.Gen))
		return p, os.WriteFile(p, []byte(b.String()), 0644)
	}
	if len(plain) > 0 {
		p, err := write("plain", plain)
		if err != nil {
			return nil, err
		}
		if err := wit.PullLogList(context.Background(), p, false); err != nil {
			return nil, err
		}
	}
	if len(mirrored) > 0 {
		p, err := write("mirrored", mirrored)
		if err != nil {
			return nil, err
		}
		if err := wit.PullLogList(context.Background(), p, true); err != nil {
			return nil, err
		}
	}
	w.Emit(&Raw{Ev: "Started", Gen: inc.Gen})
	return inc, nil
}

// Crash kills the witness process: parked operations never take effect.
func (w *World) Crash(inc *Inc) {
	w.mu.Lock()
	if !inc.dead {
		inc.dead = true
		w.emit(&Raw{Ev: "Crash", Gen: inc.Gen})
	}
	w.mu.Unlock()
}

// Req is one HTTP request in flight or finished.
type Req struct {
	ID     int
	Done   bool
	Status int
	Body   []byte
	Header http.Header
}

var gidRe = regexp.MustCompile(`^goroutine (\d+) \[`)

func curGID() int64 {
	buf := make([]byte, 64)
	n := runtime.Stack(buf, false)
	m := gidRe.FindSubmatch(buf[:n])
	var id int64
	fmt.Sscanf(string(m[1]), "%d", &id)
	return id
}

// Do starts a request against the incarnation's handler in its own goroutine.
func (inc *Inc) Do(path string, body io.Reader, hdr map[string]string, desc map[string]any) *Req {
	w := inc.W
	w.mu.Lock()
	w.reqSeq++
	rq := &Req{ID: w.reqSeq}
	d := map[string]any{}
	for k, v := range desc {
		d[k] = v
	}
	w.emit(&Raw{Ev: "Req", Req: rq.ID, Gen: inc.Gen, Kind: path, Desc: d})
	w.mu.Unlock()
	started := make(chan struct{})
	go func() {
		gid := curGID()
		w.mu.Lock()
		w.gids[gid] = true
		w.mu.Unlock()
		close(started)
		hr := httptest.NewRequest("POST", path, body)
		for k, v := range hdr {
			hr.Header.Set(k, v)
		}
		hr = hr.WithContext(context.WithValue(hr.Context(), ctxKey{}, rq.ID))
		rec := httptest.NewRecorder()
		inc.Wit.Handler().ServeHTTP(rec, hr)
		w.mu.Lock()
		delete(w.gids, gid)
		rq.Done = true
		rq.Status = rec.Code
		rq.Body = rec.Body.Bytes()
		rq.Header = rec.Header()
		if !inc.dead {
			w.emit(&Raw{Ev: "Resp", Req: rq.ID, Gen: inc.Gen, Kind: path, Status: rec.Code, Body: rq.Body, Header: rq.Header})
		}
		w.mu.Unlock()
	}()
	<-started
	w.Settle()
	return rq
}

var hdrRe = regexp.MustCompile(`(?m)^goroutine (\d+) \[([^\]]*)\]:`)

// Settle waits until every request goroutine is blocked (parked at a gate,
// waiting for a mutex or for request body bytes) or has finished. Detection
// reads the goroutine states from the runtime; it only affects which schedules
// get explored, never a verdict.
func (w *World) Settle() {
	buf := make([]byte, 1<<20)
	stable := 0
	for i := 0; i < 200000; i++ {
		runtime.Gosched()
		n := runtime.Stack(buf, true)
		w.mu.Lock()
		busy := false
		for _, m := range hdrRe.FindAllSubmatch(buf[:n], -1) {
			var id int64
			fmt.Sscanf(string(m[1]), "%d", &id)
			if !w.gids[id] {
				continue
			}
			st := string(m[2])
			if i := strings.IndexByte(st, ','); i >= 0 {
				st = st[:i]
			}
			switch st {
			case "chan receive", "chan send", "select", "sync.Mutex.Lock", "sync.RWMutex.Lock", "sync.RWMutex.RLock",
				"semacquire", "sync.Cond.Wait", "sync.WaitGroup.Wait", "IO wait":
			default:
				busy = true
			}
		}
		w.mu.Unlock()
		if busy {
			stable = 0
			time.Sleep(20 * time.Microsecond)
			continue
		}
		stable++
		if stable >= 3 {
			return
		}
	}
	panic("verif: witness harness did not settle")
}

func (w *World) Pending() []*Op {
	w.mu.Lock()
	defer w.mu.Unlock()
	var out []*Op
	for _, op := range w.pending {
		if !op.taken && !op.Inc.dead {
			out = append(out, op)
		}
	}
	sort.SliceStable(out, func(i, j int) bool { return out[i].String() < out[j].String() })
	return out
}

func (w *World) PendingOf(rq *Req) []*Op {
	var out []*Op
	for _, op := range w.Pending() {
		if op.Req == rq.ID {
			out = append(out, op)
		}
	}
	return out
}

func (w *World) Release(op *Op, out Outcome) {
	w.mu.Lock()
	op.taken = true
	w.mu.Unlock()
	op.ch <- out
	w.Settle()
}

func (w *World) IsDone(rq *Req) bool {
	w.mu.Lock()
	defer w.mu.Unlock()
	return rq.Done
}

// progress waits until the request is done ("done"), has a parked operation
// ("pending"), or cannot move because another request is parked ("blocked").
// A request that is neither done nor parked while nothing else is parked is
// simply still running (the runtime showed it in a transient blocked state,
// e.g. an internal lock under load): wait for it.
func (w *World) progress(rq *Req) string {
	for i := 0; i < 20000; i++ {
		w.Settle()
		if w.IsDone(rq) {
			return "done"
		}
		if len(w.PendingOf(rq)) > 0 {
			return "pending"
		}
		if len(w.Pending()) > 0 {
			return "blocked"
		}
		time.Sleep(500 * time.Microsecond)
	}
	return "stuck"
}

// WaitAny waits until at least one of the requests has a parked operation or
// all of them are done, and returns the parked operations per request.
func (w *World) WaitAny(rqs ...*Req) [][]*Op {
	for i := 0; i < 20000; i++ {
		w.Settle()
		out := make([][]*Op, len(rqs))
		all, some := true, false
		for j, rq := range rqs {
			if !w.IsDone(rq) {
				all = false
			}
			out[j] = w.PendingOf(rq)
			if len(out[j]) > 0 {
				some = true
			}
		}
		if all || some {
			return out
		}
		time.Sleep(500 * time.Microsecond)
	}
	return make([][]*Op, len(rqs))
}

// Finish drives one request to completion releasing its own operations.
func (w *World) Finish(rq *Req) bool {
	for i := 0; i < 100000; i++ {
		switch w.progress(rq) {
		case "done":
			return true
		case "pending":
			w.Release(w.PendingOf(rq)[0], OK)
		default:
			return false
		}
	}
	return false
}

// Steps releases at most n of the request's operations.
func (w *World) Steps(rq *Req, n int) int {
	for i := 0; i < n; i++ {
		if w.progress(rq) != "pending" {
			return i
		}
		w.Release(w.PendingOf(rq)[0], OK)
	}
	w.progress(rq)
	return n
}

// DrainAll releases everything until nothing is parked.
func (w *World) DrainAll() {
	for i := 0; i < 100000; i++ {
		w.Settle()
		p := w.Pending()
		if len(p) == 0 {
			return
		}
		w.Release(p[0], OK)
	}
}

func (w *World) Cleanup() {
	w.mu.Lock()
	for _, inc := range w.incs {
		inc.dead = true
	}
	w.mu.Unlock()
	for i := 0; i < 100000; i++ {
		w.Settle()
		w.mu.Lock()
		var op *Op
		for _, p := range w.pending {
			if !p.taken {
				op = p
				break
			}
		}
		if op == nil {
			w.mu.Unlock()
			break
		}
		op.taken = true
		w.mu.Unlock()
		op.ch <- Dead
	}
	w.Settle()
}

func (w *World) Object(key string) ([]byte, bool) {
	w.mu.Lock()
	defer w.mu.Unlock()
	d, ok := w.objs[key]
	return bytes.Clone(d), ok
}

func (w *World) Keys() []string {
	w.mu.Lock()
	defer w.mu.Unlock()
	var ks []string
	for k := range w.objs {
		ks = append(ks, k)
	}
	sort.Strings(ks)
	return ks
}

func (w *World) NoteEv(s string) { w.Emit(&Raw{Ev: "Note", Note: s}) }
