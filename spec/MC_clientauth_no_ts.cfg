SPECIFICATION MCSpec
CONSTANTS
  TW = 2
  Guards = {"leafhash", "tiles", "index", "logid", "sig", "cpsig"}
  Sizes = {3}
INVARIANTS InvSound
CHECK_DEADLOCK FALSE
