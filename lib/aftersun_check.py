"""C18: garbage collection (cmd/partial-aftersun) removes only superseded partial
tiles.

Model: spec/Aftersun.tla (abstract directories: every size around the tile
boundaries of levels 0-2 in a small tile width, every subset of left-behind
partial tiles, leftovers, lock store ahead; the abstract tool deletes one file
at a time and may stop anywhere) is model-checked by TLC; in the thorough tier
the guards of the abstract tool are also removed one by one and TLC must refute
each weakened tool (the formulas have teeth).

Binding: harness/aftersun builds real directories (real sequencer on the real
filesystem backend up to 66 k entries, sparse right-edge-only logs up to 2^30
entries with a validly signed checkpoint, mirror directories, leftovers, lock
store ahead), runs the REAL binary built from the tree under test on them (to
completion, or killed by strace between two deletions), records the directory
before and after, and runs LoadLog plus a sequencing round of the real code on
the result. spec/AftersunTrace.tla loads every record into the variables of
Aftersun.tla and TLC evaluates the same formulas. Every verdict is TLC's."""
import json
import os
import re
import shutil
import signal
import subprocess
import sys
import threading
import time

import vlib
from vlib import Inconclusive, log

PROP = "C18"
MY_SPECS = ["Tiling.tla", "Aftersun.tla", "AftersunTrace.tla", "AftersunTrace.cfg"]
# weakened tools TLC has to refute (cfg suffix -> what is weakened); noguard1
# must hold: the name check of cleanDir is covered by overrideImmutable
TEETH = {"noguards": True, "noguard4": True, "le": True, "exp": True, "lock": True, "scan": True, "unverified": True,
         "noguard1": False}

ASSUME = [
    "the directory listing is abstracted by the harness's own tile path grammar (harness/aftersun/tiles.go); a zero-length file at a full tile's path is not a full tile",
    "a directory NNN.p may go with its last partial tile (or when it was empty already): the statement fixes nothing more about it",
    "the published checkpoint's signature and size are read by the harness with the standard library (ECDSA over the RFC 6962 tree head), not with code of the tree under test",
    "kill points are system-call entries of unlinkat chosen by strace per thread; which deletion is the last one before the kill is observed from the directory, not assumed",
    "'restart and sequence' is LoadLog + one round of three entries with the real code on the directory after the run, compared with the same on an untouched copy",
    "mirror directories and sparse logs are synthesised (real Merkle trees / consistent right edge); for a mirror the lock checkpoint is the size up to which tiles were uploaded",
    "sizes below 2^30 (TLC integers are 32-bit); tile level 3 and above only as planted files",
    "TLC, CommunityModules (Json, IOUtils), strace",
]

_seq = [0]
_lock = threading.Lock()
OFFENDERS = {}  # record index -> files TLC found removed but not deletable


def run_tlc(spec, cfg, wd, workers=1, env=None, timeout=3000, xmx="6g"):
    with _lock:
        _seq[0] += 1
        d = os.path.join(wd, "tlc-%s-%d" % (cfg.replace(".cfg", ""), _seq[0]))
    os.makedirs(d)
    for f in os.listdir(vlib.SPEC):
        if f.endswith(".tla") or (f.endswith(".cfg") and "ftersun" in f):
            shutil.copy(os.path.join(vlib.SPEC, f), d)
    e = dict(os.environ)
    e.update(env or {})
    e["JAVA_TOOL_OPTIONS"] = "-Xmx%s -Xss512m" % xmx
    cmd = ["tlc", "-workers", str(workers), "-metadir", os.path.join(d, "meta"), "-config", cfg, spec]
    try:
        p = subprocess.run(cmd, cwd=d, env=e, timeout=timeout, stdout=subprocess.PIPE, stderr=subprocess.STDOUT, text=True)
    except subprocess.TimeoutExpired:
        raise Inconclusive("TLC timed out on %s/%s after %d s" % (spec, cfg, timeout))
    shutil.rmtree(os.path.join(d, "meta"), ignore_errors=True)
    return p.returncode, p.stdout, d


def in_threads(jobs):
    res = [None] * len(jobs)
    errs = []

    def wrap(i, f):
        try:
            res[i] = f()
        except BaseException as e:  # noqa: BLE001
            errs.append(e)
    ts = [threading.Thread(target=wrap, args=(i, f)) for i, f in enumerate(jobs)]
    for t in ts:
        t.start()
    for t in ts:
        t.join()
    for e in errs:
        if isinstance(e, Inconclusive):
            raise e
    if errs:
        raise errs[0]
    return res


def spec_hash(extra):
    return vlib.hash_tree([os.path.join(vlib.SPEC, f) for f in MY_SPECS + extra])


def model(cfg, wd, use_cache, workers):
    """Model-checks Aftersun.tla under cfg. The model does not depend on the
    tree under test: the quick tier reuses the result for unchanged specs."""
    cdir = os.path.join(vlib.WORK, "modelcache")
    os.makedirs(cdir, exist_ok=True)
    cstat = os.path.join(cdir, "aftersun-%s-%s.json" % (cfg.replace(".cfg", ""), spec_hash([cfg])))
    if use_cache and os.path.exists(cstat):
        st = json.load(open(cstat))
        st["cached"] = True
        return st
    t0 = time.time()
    rc, out, td = run_tlc("Aftersun.tla", cfg, wd, workers=workers)
    states, trans = vlib.tlc_stats(out)
    m = re.search(r"Invariant (\S+) is violated", out)
    ok = rc == 0 and "Model checking completed. No error has been found." in out
    ninit = re.search(r"(\d+) states generated, with (\d+) of them distinct", out)
    st = {"cfg": cfg, "states": states, "transitions": trans, "wall_s": round(time.time() - t0, 1), "ok": ok,
          "violated": m.group(1) if m else None, "abstract_directories": int(ninit.group(2)) if ninit else 0, "cached": False}
    if not ok and not m:
        op = os.path.join(vlib.WORK, "model-aftersun-%s.out" % cfg)
        open(op, "w").write(out)
        raise Inconclusive("model Aftersun/%s failed (rc=%d); TLC output in %s" % (cfg, rc, op))
    shutil.rmtree(td, ignore_errors=True)
    tmp = cstat + ".tmp%d" % os.getpid()
    json.dump(st, open(tmp, "w"))
    os.replace(tmp, cstat)
    return st


def models(tier, wd):
    if tier == "quick":
        st = model("MC_q_aftersun.cfg", wd, True, 4)
        if not st["ok"]:
            raise Inconclusive("the model violates %s under MC_q_aftersun.cfg" % st["violated"])
        return st, {}, None
    jobs = [lambda: model("MC_aftersun.cfg", wd, False, 6), lambda: model("MC_aftersun_w3.cfg", wd, False, 2)]
    names = sorted(TEETH)
    jobs += [(lambda n=n: model("MC_aftersun_%s.cfg" % n, wd, False, 1)) for n in names]
    res = in_threads(jobs)
    main, w3, teeth = res[0], res[1], dict(zip(names, res[2:]))
    for st in (main, w3):
        if not st["ok"]:
            raise Inconclusive("the model violates %s under %s" % (st["violated"], st["cfg"]))
    for n, st in teeth.items():
        if TEETH[n] and st["ok"]:
            raise Inconclusive("TLC does not refute the weakened tool of %s: the formulas lost their teeth" % st["cfg"])
        if not TEETH[n] and not st["ok"]:
            raise Inconclusive("the tool without its name check violates %s (%s): overrideImmutable should cover it" % (st["violated"], st["cfg"]))
    return main, {n: (st["violated"] or "holds") for n, st in teeth.items()}, w3


def run_harness(har, env, wd, timeout):
    e = dict(os.environ)
    e.update(env)
    logp = os.path.join(wd, "harness.log")
    with open(logp, "w") as lf:
        p = subprocess.Popen([har, "-test.run", "^TestAftersun$", "-test.v", "-test.timeout", "%ds" % timeout],
                             cwd=wd, env=e, stdout=lf, stderr=subprocess.STDOUT, start_new_session=True)
        try:
            rc = p.wait(timeout=timeout + 60)
        except subprocess.TimeoutExpired:
            rc = -9
        try:
            os.killpg(p.pid, signal.SIGKILL)
        except OSError:
            pass
    out = open(logp, errors="replace").read()
    herr = re.findall(r"HARNESS-ERROR (.*)", out)
    if rc != 0 or "AFTERSUN-DONE" not in out:
        raise Inconclusive("the harness did not finish cleanly (rc=%s): %s" % (rc, (herr or [out[-1500:]])[0]))
    return out, herr


def validate(lines, wd):
    """Validates the records in shards balanced by size, several JVMs at a
    time. Returns ({record index: [formulas]}, states, transitions)."""
    nshards = max(1, min(vlib.NCPU // 2, len(lines) // 12))
    order = sorted(range(len(lines)), key=lambda i: -len(lines[i]))
    shards, load = [[] for _ in range(nshards)], [0] * nshards
    for i in order:
        k = load.index(min(load))
        shards[k].append(i)
        load[k] += len(lines[i]) + 2000

    def one(k):
        path = os.path.join(wd, "trace-shard%02d.ndjson" % k)
        with open(path, "w") as f:
            for i in shards[k]:
                f.write(lines[i] + "\n")
            f.write('{"ev":"End"}\n')
        rc, out, td = run_tlc("AftersunTrace.tla", "AftersunTrace.cfg", wd, workers=1, env={"VERIF_TRACE": path})
        if rc != 0 or "TRACE-END" not in out:
            op = os.path.join(vlib.WORK, "trace-aftersun-%d-%d.out" % (os.getpid(), k))
            open(op, "w").write(out)
            raise Inconclusive("trace validation did not consume shard %d (rc=%d); TLC output in %s" % (k, rc, op))
        st, tr = vlib.tlc_stats(out)
        reps = vlib.scenario_reports(out)
        offenders = {}
        for m in re.finditer(r'<<\s*"OFFENDERS",', out):
            depth, j = 0, m.start()
            while j < len(out):
                if out.startswith("<<", j):
                    depth += 1
                    j += 2
                elif out.startswith(">>", j):
                    depth -= 1
                    j += 2
                    if depth == 0:
                        break
                else:
                    j += 1
            try:
                v = vlib.parse_tla_value(out[m.start():j])
                offenders[v[1]] = v[2]
            except (ValueError, IndexError):
                pass
        shutil.rmtree(td, ignore_errors=True)
        return reps, st, tr, offenders
    res = in_threads([(lambda k=k: one(k)) for k in range(nshards)])
    viol, states, trans, seen = {}, 0, 0, 0
    for k, (reps, st, tr, offenders) in enumerate(res):
        states += st
        trans += tr
        seen += len(reps)
        for line, fs in offenders.items():
            if 1 <= line <= len(shards[k]):
                OFFENDERS[shards[k][line - 1]] = fs
        for _name, vs in reps:
            for f, line in vs:
                if 1 <= line <= len(shards[k]):
                    viol.setdefault(shards[k][line - 1], []).append(f)
    if seen != len(lines):
        raise Inconclusive("TLC reported on %d of %d records" % (seen, len(lines)))
    return viol, states, trans


def stem(name):
    return "/".join(name.split("/")[:2])


def brief(rec):
    def show(fs):
        out = []
        for f in fs:
            if f["t"] in ("full", "partial", "pdir", "empty", "pjunk"):
                out.append("%s %s/%d/%d%s" % (f["t"], f["k"], f["l"], f["n"], ("/w%d" % f["w"]) if f["t"] == "partial" else ""))
            else:
                out.append("%s %s" % (f["t"], f["id"]))
        return out
    b = {json.dumps(f, sort_keys=True) for f in rec["before"]}
    a = {json.dumps(f, sort_keys=True) for f in rec["after"]}
    removed = [json.loads(x) for x in sorted(b - a)]
    added = [json.loads(x) for x in sorted(a - b)]
    return {"name": rec["name"], "mode": rec["mode"], "pub": rec["pub"], "pv": rec["pv"], "lock": rec["lock"], "exit": rec["exit"],
            "killed": rec["killed"], "files_before": len(rec["before"]), "immutable_before": rec["imm_before"],
            "removed": show(removed)[:40], "removed_count": len(removed), "appeared_or_changed": show(added)[:20],
            "staged": len(rec["staged"]), "restart": rec["restart"], "outside_changed": rec["outside"]}


def run(prop, tier):
    if prop != PROP:
        log("INCONCLUSIVE property=%s not handled by aftersun_check" % prop)
        sys.exit(2)
    t0 = time.time()
    sd = vlib.seed()
    wd = vlib.workdir("chk-" + prop)
    only = os.environ.get("VERIF_ONLY", "")
    try:
        tool = os.path.join(wd, "bin", "partial-aftersun")
        har = os.path.join(wd, "bin", "aftersun-harness.test")
        trace = os.path.join(wd, "runs.ndjson")
        box = {}

        def build_and_run():
            in_threads([lambda: vlib.build_binary("./cmd/partial-aftersun", tool, cwd=vlib.REPO),
                        lambda: vlib.build_test_binary("./aftersun/", har)])
            box["t_build"] = time.time() - t0
            env = {"VERIF_AFTERSUN_BIN": tool, "VERIF_OUT": trace, "VERIF_WORK": os.path.join(wd, "dirs"),
                   "VERIF_TIER": tier, "VERIF_SEED": str(sd)}
            if only:
                env["VERIF_ONLY"] = "^" + re.escape(stem(only)) + "(/|$)"
            box["hout"], box["herr"] = run_harness(har, env, wd, 2400 if tier == "thorough" else 1200)
            box["t_har"] = time.time() - t0 - box["t_build"]
        (_, (mc, teeth, w3)) = in_threads([build_and_run, lambda: models(tier, wd)])
        herr = box["herr"]
        lines = [ln.rstrip("\n") for ln in open(trace) if ln.strip()]
        if not lines:
            raise Inconclusive("the harness recorded no run")
        t1 = time.time()
        viol, tstates, ttrans = validate(lines, wd)
        t_val = time.time() - t1

        recs = [json.loads(ln) for ln in lines]
        violations, known, per_formula = [], [], {}
        for i in sorted(viol):
            rec = recs[i]
            for f in sorted(viol[i]):
                per_formula[f] = per_formula.get(f, 0) + 1
                kf = vlib.match_finding(prop, f, rec["name"])
                if kf:
                    known.append("%s formula=%s scenario=%s" % (kf["what"], f, rec["name"]))
                    continue
                if per_formula[f] > 4:
                    continue
                b = brief(rec)
                b["removed_but_not_deletable"] = [" ".join(str(x) for x in f if x != "") for f in OFFENDERS.get(i, [])][:40]
                path = vlib.write_replay(prop, rec["name"].replace("/", "_") + "--" + f, {
                    "property": prop, "formula": f, "scenario": rec["name"], "tier": tier, "seed": sd, "run": b, "record": rec,
                    "tool_output": rec.get("out", ""),
                    "how_to_replay": "VERIF_ONLY='%s' VERIF_SEED=%d bin/check %s %s   (re-runs every variant of that directory; kill points depend on thread scheduling)" % (rec["name"], sd, prop, tier),
                    "meaning": "TLC evaluated formula %s of spec/Aftersun.tla to FALSE on this run of the real partial-aftersun binary" % f})
                violations.append(("formula %s false on %s: pub=%s lock=%s exit=%s killed=%s removed %d (%s) restart=%s" % (
                    f, rec["name"], rec["pub"], rec["lock"], rec["exit"], rec["killed"], b["removed_count"], ", ".join(b["removed"][:6]),
                    rec["restart"]), path))

        n = len(recs)
        nrem = sum(1 for r in recs if r["nremoved"] > 0)
        nkill = sum(1 for r in recs if r["killed"])
        nahead = sum(1 for r in recs if r["lock"] > r["pub"] and r["pv"])
        nrestart = sum(1 for r in recs if r["restart"]["tried"] and r["restart"]["base"])
        nvac = sum(1 for r in recs if r["restart"]["tried"] and not r["restart"]["base"])
        kinds = {}
        for r in recs:
            k = re.sub(r"\d+", "", r["name"].split("/")[0]) + ("-mirror" if r["mode"] == "mirror" else "")
            kinds[k] = kinds.get(k, 0) + 1
        imm = sum(1 for r in recs if r["imm_before"] > 0 and r["nremoved"] > 0)
        picks = [r for r in recs if r["nremoved"] > 0 and r["lock"] > r["pub"]][:1] + [r for r in recs if r["killed"]][:1] + \
                [r for r in recs if r["name"].startswith("sparse") and r["nremoved"] > 0][:1] + [r for r in recs if r["mode"] == "mirror"][:1]
        cov = {"states": mc["states"], "transitions": mc["transitions"], "traces_validated_against_impl": n,
               "samples": [brief(r) for r in picks] or [{"none": True}],
               "model": mc, "model_w3": w3, "weakened_tools_refuted_by": teeth,
               "runs": {"records": n, "by_kind": kinds, "removed_something": nrem, "killed_between_deletions": nkill,
                        "lock_ahead_of_published": nahead, "restart_checked": nrestart, "restart_baseline_failed": nvac,
                        "removed_files_with_immutable_flag_set": imm, "max_size": max(r["lock"] for r in recs),
                        "files_removed_total": sum(r["nremoved"] for r in recs)},
               "trace_validation": {"tlc_states": tstates, "tlc_transitions": ttrans},
               "violated_formulas": per_formula, "harness_errors": herr[:20], "exhaustive": False}
        if not only:
            vlib.write_evidence(prop, tier, "model_checking", cov, time.time() - t0, len(violations), ASSUME)
        inconclusive = None
        if herr:
            inconclusive = "%d harness error(s): %s" % (len(herr), herr[0])
        elif not only and nrem == 0:
            inconclusive = "the tool removed nothing in any run: the directories are not what it expects from this tree"
        elif not only and (nkill == 0 or nahead == 0 or nrestart == 0):
            inconclusive = "no killed run (%d), no lock-ahead directory (%d) or no restart check (%d) was recorded" % (nkill, nahead, nrestart)
        log("C18 %s: %d runs of the real binary (%s), %d removed something, %d killed, %d lock-ahead, %d restart-checked; model %d states / %d abstract directories%s; build %.0f s, harness %.0f s, validation %.0f s" % (
            tier, n, ", ".join("%s %d" % kv for kv in sorted(kinds.items())), nrem, nkill, nahead, nrestart, mc["states"],
            mc.get("abstract_directories", 0), " (cached)" if mc.get("cached") else "", box["t_build"], box["t_har"], t_val))
        vlib.finish(prop, violations, known, inconclusive)
    except Inconclusive as e:
        log("INCONCLUSIVE property=%s %s" % (prop, e))
        sys.exit(2)
    finally:
        vlib.rmtree(wd)
