package skylight

import (
	"context"
	"crypto/ecdsa"
	"crypto/ed25519"
	"crypto/elliptic"
	"crypto/rand"
	"crypto/sha256"
	"crypto/x509"
	"crypto/x509/pkix"
	"encoding/binary"
	"encoding/hex"
	"encoding/json"
	"errors"
	"fmt"
	"io"
	"log/slog"
	"math/big"
	"os"
	"path/filepath"
	"sync"
	"time"

	"filippo.io/mldsa"
	"filippo.io/sunlight"
	"filippo.io/sunlight/internal/ctlog"
	"filippo.io/torchwood"
	"golang.org/x/mod/sumdb/note"
	"golang.org/x/mod/sumdb/tlog"
)

func must[T any](v T, err error) T {
	if err != nil {
		panic(err)
	}
	return v
}

func check(err error) {
	if err != nil {
		panic(err)
	}
}

func WriteFile(path string, data []byte) {
	check(os.MkdirAll(filepath.Dir(path), 0o755))
	check(os.WriteFile(path, data, 0o644))
}

// OriginHash is c2sp.org/tlog-witness's directory name of a log: the lower
// case hex SHA-256 of its origin (computed here, not taken from the code
// under test).
func OriginHash(origin string) string {
	h := sha256.Sum256([]byte(origin))
	return hex.EncodeToString(h[:])
}

func NewECDSAKey() *ecdsa.PrivateKey { return must(ecdsa.GenerateKey(elliptic.P256(), rand.Reader)) }

// ----------------------------------------------------------------- log checkpoints

// treeHeadSignature is an RFC 6962 section 3.5 TreeHeadSignature by key, as a
// TLS DigitallySigned structure (sha256, ecdsa).
func treeHeadSignature(key *ecdsa.PrivateKey, size, ts int64, root tlog.Hash) []byte {
	b := []byte{0 /* v1 */, 1 /* tree_hash */}
	b = binary.BigEndian.AppendUint64(b, uint64(ts))
	b = binary.BigEndian.AppendUint64(b, uint64(size))
	b = append(b, root[:]...)
	d := sha256.Sum256(b)
	sig := must(ecdsa.SignASN1(rand.Reader, key, d[:]))
	out := []byte{4, 3}
	out = binary.BigEndian.AppendUint16(out, uint16(len(sig)))
	return append(out, sig...)
}

// SignLogCheckpoint returns a Static CT checkpoint of origin name signed by
// key with tree head timestamp ts (milliseconds).
func SignLogCheckpoint(name string, key *ecdsa.PrivateKey, size int64, root tlog.Hash, ts int64) []byte {
	s := must(sunlight.NewRFC6962InjectedSigner(name, key.Public(), treeHeadSignature(key, size, ts, root), ts))
	text := torchwood.Checkpoint{Origin: name, Tree: tlog.Tree{N: size, Hash: root}}.String()
	return must(note.Sign(&note.Note{Text: text}, s))
}

type LogMeta struct {
	Name    string
	Key     *ecdsa.PrivateKey
	End     time.Time // temporal_interval.end_exclusive
	Final   bool
	FRoot   tlog.Hash
	FSize   int64
	FTime   int64
	Comment string
}

// LogV3JSON renders the metadata file cmd/sunlight publishes next to a log.
func LogV3JSON(m LogMeta) []byte {
	pkixKey := must(x509.MarshalPKIXPublicKey(m.Key.Public()))
	id := sha256.Sum256(pkixKey)
	v := map[string]any{
		"description":    m.Name,
		"friendly_name":  "verif",
		"submission_url": "https://submit.invalid/",
		"monitoring_url": "https://monitor.invalid/",
		"log_id":         id[:],
		"key":            pkixKey,
		"mmd":            60,
		"log_spec":       "static-ct-api",
		"mmd_seconds":    60,
		"tls_only":       true,
		"status":         "active",
		"temporal_interval": map[string]string{
			"start_inclusive": "2020-01-01T00:00:00Z",
			"end_exclusive":   m.End.UTC().Format(time.RFC3339),
		},
		"verif_comment": m.Comment,
	}
	if m.Final {
		v["status"] = "readonly"
		v["final_tree_head"] = map[string]any{"sha256_root_hash": m.FRoot[:], "tree_size": m.FSize, "timestamp": m.FTime}
	}
	return append(must(json.MarshalIndent(v, "", "  ")), '\n')
}

// ----------------------------------------------------------------- cosigners and mirror trees

type Cosigner struct {
	*torchwood.CosignatureSigner
	VKey string
}

func NewCosigner(name string) *Cosigner {
	_, priv := must2(ed25519.GenerateKey(rand.Reader))
	s := must(torchwood.NewCosignatureSigner(name, priv))
	return &Cosigner{s, s.Verifier().String()}
}

func must2[A, B any](a A, b B, err error) (A, B) {
	if err != nil {
		panic(err)
	}
	return a, b
}

func VerifierKeysJSON(name string, vkeys ...string) []byte {
	if vkeys == nil {
		vkeys = []string{}
	}
	return append(must(json.MarshalIndent(map[string]any{
		"name": name, "submission_url": "https://submit.invalid/", "monitoring_url": "https://monitor.invalid/",
		"verifier_keys": vkeys,
	}, "", "  ")), '\n')
}

func SignNote(origin string, size int64, root tlog.Hash, signers ...note.Signer) []byte {
	text := torchwood.Checkpoint{Origin: origin, Tree: tlog.Tree{N: size, Hash: root}}.String()
	return must(note.Sign(&note.Note{Text: text}, signers...))
}

// MirrorTree is a real Merkle tree of size N over records "record i" with all
// its c2sp.org/tlog-tiles hash tiles.
type MirrorTree struct {
	N     int64
	Root  tlog.Hash
	Tiles map[string][]byte // tile path -> content
}

func BuildMirrorTree(size int64) *MirrorTree {
	hashes := map[int64]tlog.Hash{}
	hr := tlog.HashReaderFunc(func(indexes []int64) ([]tlog.Hash, error) {
		out := make([]tlog.Hash, len(indexes))
		for i, x := range indexes {
			h, ok := hashes[x]
			if !ok {
				return nil, fmt.Errorf("missing stored hash %d", x)
			}
			out[i] = h
		}
		return out, nil
	})
	for i := int64(0); i < size; i++ {
		stored := must(tlog.StoredHashes(i, fmt.Appendf(nil, "record %d", i), hr))
		base := tlog.StoredHashIndex(0, i)
		for j, h := range stored {
			hashes[base+int64(j)] = h
		}
	}
	mt := &MirrorTree{N: size, Tiles: map[string][]byte{}}
	mt.Root = must(tlog.TreeHash(size, hr))
	for _, tile := range tlog.NewTiles(torchwood.TileHeight, 0, size) {
		mt.Tiles[torchwood.TilePath(tile)] = must(tlog.ReadTileData(tile, hr))
	}
	return mt
}

// RightEdgeTile is the level-0 partial tile at the right edge of the tree.
func (mt *MirrorTree) RightEdgeTile() string {
	w := int(mt.N % 256)
	return torchwood.TilePath(tlog.Tile{H: torchwood.TileHeight, L: 0, N: mt.N / 256, W: w})
}

// ----------------------------------------------------------------- a real log

type RealLog struct {
	Dir     string
	Name    string
	Key     *ecdsa.PrivateKey
	Size    int64
	Issuers [][32]byte // fingerprints of the two issuing CAs
}

type testCA struct {
	key  *ecdsa.PrivateKey
	cert *x509.Certificate
	der  []byte
}

func newCA(cn string) *testCA {
	k := NewECDSAKey()
	tmpl := &x509.Certificate{
		SerialNumber: big.NewInt(1), Subject: pkix.Name{CommonName: cn, Organization: []string{"verif"}},
		NotBefore: time.Now().Add(-time.Hour), NotAfter: time.Now().AddDate(5, 0, 0),
		IsCA: true, BasicConstraintsValid: true, KeyUsage: x509.KeyUsageCertSign,
	}
	der := must(x509.CreateCertificate(rand.Reader, tmpl, tmpl, k.Public(), k))
	return &testCA{k, must(x509.ParseCertificate(der)), der}
}

func (ca *testCA) leaf(i int) []byte {
	k := ca.key // the subject key is irrelevant here; reuse to keep generation fast
	tmpl := &x509.Certificate{
		SerialNumber: big.NewInt(int64(1000 + i)), Subject: pkix.Name{CommonName: fmt.Sprintf("n%d.verif.test", i)},
		DNSNames:  []string{fmt.Sprintf("n%d.verif.test", i), fmt.Sprintf("www.n%d.verif.test", i)},
		NotBefore: time.Now().Add(-time.Hour), NotAfter: time.Now().AddDate(0, 1, 0),
		KeyUsage: x509.KeyUsageDigitalSignature, ExtKeyUsage: []x509.ExtKeyUsage{x509.ExtKeyUsageServerAuth},
	}
	return must(x509.CreateCertificate(rand.Reader, tmpl, ca.cert, k.Public(), ca.key))
}

// BuildRealLog produces a log with the real sequencer (internal/ctlog) on the
// real filesystem backend: CreateLog, LoadLog, then one sequencing round per
// batch (so that the partial tiles of the intermediate sizes exist as well).
func BuildRealLog(dir, scratch, name string, batches []int) (rl *RealLog, err error) {
	defer func() {
		if r := recover(); r != nil {
			err = fmt.Errorf("building the real log: %v", r)
		}
	}()
	ctx := context.Background()
	quiet := slog.New(slog.NewTextHandler(io.Discard, nil))
	check(os.MkdirAll(dir, 0o755))
	check(os.MkdirAll(scratch, 0o755))
	key := NewECDSAKey()
	wkey := must(mldsa.GenerateKey(mldsa.MLDSA44()))
	backend := must(ctlog.NewLocalBackend(ctx, dir, quiet))
	lock := &memLock{m: map[[32]byte]*memCheckpoint{}}
	cfg := &ctlog.Config{
		Name: name, Key: key, WitnessKey: wkey,
		Cache:   filepath.Join(scratch, "cache.db"),
		Backend: backend, Lock: lock, Log: quiet,
		NotAfterStart: time.Now().AddDate(-1, 0, 0), NotAfterLimit: time.Now().AddDate(1, 0, 0),
	}
	check(ctlog.CreateLog(ctx, cfg))
	l := must(ctlog.LoadLog(ctx, cfg))
	defer l.CloseCache()
	cas := []*testCA{newCA("verif CA one"), newCA("verif CA two")}
	rl = &RealLog{Dir: dir, Name: name, Key: key}
	for _, ca := range cas {
		rl.Issuers = append(rl.Issuers, sha256.Sum256(ca.der))
	}
	n := 0
	for _, b := range batches {
		var waits []func(context.Context) (*sunlight.LogEntry, error)
		for i := 0; i < b; i++ {
			ca := cas[n%2]
			e := &ctlog.PendingLogEntry{Certificate: ca.leaf(n), Issuers: [][]byte{ca.der}}
			w, _ := l.VerifAddLeafToPool(ctx, e, false)
			waits = append(waits, w)
			n++
		}
		check(l.VerifSequence(ctx))
		for _, w := range waits {
			if _, err := w(ctx); err != nil {
				return nil, fmt.Errorf("entry was not sequenced: %w", err)
			}
		}
	}
	rl.Size = int64(n)
	return rl, nil
}

// memLock is a single-process compare-and-swap lock store (the lock store is
// not part of what C19 looks at: the published directory is).
type memLock struct {
	mu sync.Mutex
	m  map[[32]byte]*memCheckpoint
}

type memCheckpoint struct {
	id   [32]byte
	body []byte
}

func (c *memCheckpoint) Bytes() []byte { return c.body }

func (b *memLock) Fetch(ctx context.Context, id [32]byte) (ctlog.LockedCheckpoint, error) {
	b.mu.Lock()
	defer b.mu.Unlock()
	c, ok := b.m[id]
	if !ok {
		return nil, ctlog.ErrLogNotFound
	}
	return c, nil
}

func (b *memLock) Replace(ctx context.Context, old ctlog.LockedCheckpoint, new []byte) (ctlog.LockedCheckpoint, error) {
	b.mu.Lock()
	defer b.mu.Unlock()
	o := old.(*memCheckpoint)
	if b.m[o.id] != o {
		return nil, errors.New("lock: checkpoint changed")
	}
	n := &memCheckpoint{o.id, append([]byte{}, new...)}
	b.m[o.id] = n
	return n, nil
}

func (b *memLock) Create(ctx context.Context, id [32]byte, new []byte) error {
	b.mu.Lock()
	defer b.mu.Unlock()
	if _, ok := b.m[id]; ok {
		return errors.New("lock: checkpoint exists")
	}
	b.m[id] = &memCheckpoint{id, append([]byte{}, new...)}
	return nil
}
