\* the design as written in internal/durable/path.go: Atomic and Durable hold at every power-loss point
SPECIFICATION Spec
CONSTANTS
  FileSync = TRUE
  DirSync = TRUE
  NewDirSync = TRUE
  ParentSync = TRUE
  RenameFirst = FALSE
  InPlace = FALSE
  NUploads = 2
INVARIANTS Follows Atomic Durable
CHECK_DEADLOCK FALSE
