\* witness + mirror: add-checkpoint and add-entries requests interleaved
SPECIFICATION Spec
CONSTANTS
  Reqs = {"r1", "r2"}
  MaxN = 4
  ForkPoint = 2
  MaxFaults = 1
  MaxRestarts = 1
  WithMirror = TRUE
  TW = 2
INVARIANTS CosignedChain RecordedBeforeReleased MirrorServable MirrorBehindPending MirrorReleasedRecorded MirrorPublishedRecorded
PROPERTIES RecordChain MirrorNeverDecreases
CHECK_DEADLOCK FALSE
