SPECIFICATION Spec
INVARIANT TypeOK
INVARIANT LayoutSane
INVARIANT OddTailsOdd
INVARIANT IdealConforms
INVARIANT DecoyRefuted
INVARIANT ListingRefuted
INVARIANT EquivHeadersRefuted
CHECK_DEADLOCK FALSE
