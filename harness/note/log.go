package note

import (
	"bytes"
	"context"
	"crypto/sha256"
	"errors"
	"fmt"
	"io"
	"log/slog"
	"path/filepath"
	"sync"
	"time"

	"filippo.io/sunlight/internal/ctlog"
	"github.com/prometheus/client_golang/prometheus"
)

// Signed is one checkpoint the log signed, with what the harness knows about
// the moment: the clock value the log read for it and the number of entries
// sequenced so far.
type Signed struct {
	Bytes []byte
	Where string // "lock-create", "lock-replace"
	Clock int64
	Size  int64
}

// MemStore is an in-memory Backend and LockBackend that remembers every
// checkpoint handed to it.
type MemStore struct {
	mu      sync.Mutex
	objs    map[string][]byte
	lock    map[[32]byte][]byte
	Signed  []Signed
	Pub     [][]byte // checkpoints uploaded to the "checkpoint" object
	clock   *int64
	entries *int64
}

type memBackend struct{ s *MemStore }
type memLock struct{ s *MemStore }
type memCheckpoint struct{ b []byte }

func (c *memCheckpoint) Bytes() []byte { return c.b }

func (b *memBackend) Upload(ctx context.Context, key string, data []byte, opts *ctlog.UploadOptions) error {
	b.s.mu.Lock()
	defer b.s.mu.Unlock()
	b.s.objs[key] = bytes.Clone(data)
	if key == "checkpoint" {
		b.s.Pub = append(b.s.Pub, bytes.Clone(data))
	}
	return nil
}

func (b *memBackend) Fetch(ctx context.Context, key string) ([]byte, error) {
	b.s.mu.Lock()
	defer b.s.mu.Unlock()
	d, ok := b.s.objs[key]
	if !ok {
		return nil, fmt.Errorf("object %q not found", key)
	}
	return bytes.Clone(d), nil
}

func (b *memBackend) Discard(ctx context.Context, key string) error {
	b.s.mu.Lock()
	defer b.s.mu.Unlock()
	delete(b.s.objs, key)
	return nil
}

func (b *memBackend) Metrics() []prometheus.Collector { return nil }

func (l *memLock) Fetch(ctx context.Context, id [sha256.Size]byte) (ctlog.LockedCheckpoint, error) {
	l.s.mu.Lock()
	defer l.s.mu.Unlock()
	v, ok := l.s.lock[id]
	if !ok {
		return nil, ctlog.ErrLogNotFound
	}
	return &memCheckpoint{bytes.Clone(v)}, nil
}

func (l *memLock) Replace(ctx context.Context, old ctlog.LockedCheckpoint, new []byte) (ctlog.LockedCheckpoint, error) {
	l.s.mu.Lock()
	defer l.s.mu.Unlock()
	for id, v := range l.s.lock {
		if bytes.Equal(v, old.Bytes()) {
			l.s.lock[id] = bytes.Clone(new)
			l.s.Signed = append(l.s.Signed, Signed{bytes.Clone(new), "lock-replace", *l.s.clock, *l.s.entries})
			return &memCheckpoint{bytes.Clone(new)}, nil
		}
	}
	return nil, errors.New("checkpoint changed")
}

func (l *memLock) Create(ctx context.Context, id [sha256.Size]byte, new []byte) error {
	l.s.mu.Lock()
	defer l.s.mu.Unlock()
	if _, ok := l.s.lock[id]; ok {
		return errors.New("log exists")
	}
	l.s.lock[id] = bytes.Clone(new)
	l.s.Signed = append(l.s.Signed, Signed{bytes.Clone(new), "lock-create", *l.s.clock, *l.s.entries})
	return nil
}

// Driver runs one log instance on a MemStore with a clock the harness sets.
type Driver struct {
	Name    string
	Keys    *Keys
	Store   *MemStore
	Cfg     *ctlog.Config
	Log     *ctlog.Log
	Clock   int64
	Entries int64 // entries the harness expects in the tree after the rounds so far
	pending int64
	waits   []func(context.Context) error
}

// The clock hook of ctlog is one global; one driver reads it at a time.
var activeClock *int64

func NewDriver(name string, keys *Keys, dir, tag string, clock int64) *Driver {
	d := &Driver{Name: name, Keys: keys, Clock: clock}
	d.Store = &MemStore{objs: map[string][]byte{}, lock: map[[32]byte][]byte{}, clock: &d.Clock, entries: &d.Entries}
	d.Cfg = &ctlog.Config{
		Name: name, Key: keys.Log, WitnessKey: keys.Witness, PoolSize: 0,
		Cache:   filepath.Join(dir, "cache-"+tag+".db"),
		Backend: &memBackend{d.Store}, Lock: &memLock{d.Store},
		Log:           slog.New(slog.NewTextHandler(io.Discard, nil)),
		NotAfterStart: time.Date(2020, 1, 1, 0, 0, 0, 0, time.UTC),
		NotAfterLimit: time.Date(2099, 1, 1, 0, 0, 0, 0, time.UTC),
	}
	return d
}

func (d *Driver) activate() {
	activeClock = &d.Clock
	ctlog.VerifSetTimeNowUnixMilli(func() int64 { return *activeClock })
}

func (d *Driver) Create(ctx context.Context) error {
	d.activate()
	return ctlog.CreateLog(ctx, d.Cfg)
}

func (d *Driver) Load(ctx context.Context) error {
	d.activate()
	l, err := ctlog.LoadLog(ctx, d.Cfg)
	if err != nil {
		return err
	}
	d.Log = l
	return nil
}

// Submit adds a synthetic entry to the pool.
func (d *Driver) Submit(ctx context.Context, e *ctlog.PendingLogEntry) {
	d.activate()
	f, _ := d.Log.VerifAddLeafToPool(ctx, e, false)
	d.pending++
	d.waits = append(d.waits, func(ctx context.Context) error { _, err := f(ctx); return err })
}

// Round sets the clock and runs one sequencing round.
func (d *Driver) Round(ctx context.Context, clock int64) error {
	d.activate()
	d.Clock = clock
	d.Entries += d.pending
	d.pending = 0
	if err := d.Log.VerifSequence(ctx); err != nil {
		return err
	}
	for _, w := range d.waits {
		if err := w(ctx); err != nil {
			return fmt.Errorf("submission failed: %w", err)
		}
	}
	d.waits = nil
	return nil
}

func (d *Driver) Close() {
	if d.Log != nil {
		d.Log.CloseCache()
	}
}

func SynthEntry(tag string, precert bool) *ctlog.PendingLogEntry {
	e := &ctlog.PendingLogEntry{Certificate: []byte("cert-" + tag)}
	if precert {
		e.IsPrecert = true
		e.PreCertificate = []byte("precert-" + tag)
		e.IssuerKeyHash = sha256.Sum256([]byte("ikh-" + tag))
	}
	e.Issuers = [][]byte{[]byte("issuer-X")}
	return e
}
