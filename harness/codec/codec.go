package codec

import (
	"bytes"
	"encoding/binary"
	"math/rand"
	"reflect"

	"filippo.io/sunlight"
	"golang.org/x/mod/sumdb/tlog"
)

// EntryJ is a sunlight.LogEntry in the representation of Codec.tla.
type EntryJ struct {
	Ts   Limbs `json:"ts"`
	Pre  bool  `json:"pre"`
	Ikh  RL    `json:"ikh"`
	Cert RL    `json:"cert"`
	Prec RL    `json:"prec"`
	Arch bool  `json:"arch"`
	Idx  Limbs `json:"idx"`
	Fps  RL    `json:"fps"`
}

func EntryToJ(e *sunlight.LogEntry) EntryJ {
	fps := make([]byte, 0, 32*len(e.ChainFingerprints))
	for _, f := range e.ChainFingerprints {
		fps = append(fps, f[:]...)
	}
	return EntryJ{
		Ts: ToLimbs(uint64(e.Timestamp)), Pre: e.IsPrecert, Ikh: ToRL(e.IssuerKeyHash[:]),
		Cert: ToRL(e.Certificate), Prec: ToRL(e.PreCertificate), Arch: e.RFC6962ArchivalLeaf,
		Idx: ToLimbs(uint64(e.LeafIndex)), Fps: ToRL(fps),
	}
}

func EntryFromJ(j EntryJ) *sunlight.LogEntry {
	e := &sunlight.LogEntry{
		Timestamp: int64(j.Ts.Uint64()), IsPrecert: j.Pre, Certificate: j.Cert.Bytes(),
		RFC6962ArchivalLeaf: j.Arch, LeafIndex: int64(j.Idx.Uint64()),
	}
	copy(e.IssuerKeyHash[:], j.Ikh.Bytes())
	if j.Pre {
		e.PreCertificate = j.Prec.Bytes()
	}
	fps := j.Fps.Bytes()
	for i := 0; i+32 <= len(fps); i += 32 {
		var f [32]byte
		copy(f[:], fps[i:])
		e.ChainFingerprints = append(e.ChainFingerprints, f)
	}
	return e
}

// Rec collects records and numbers them.
type Rec struct {
	O *Out
}

func (r *Rec) emit(m map[string]any) {
	r.O.Write(m)
}

func appendLeaf(pfx []byte, e *sunlight.LogEntry) (out []byte, pan string) {
	defer func() { pan = panicString(recover()) }()
	out = sunlight.AppendTileLeaf(pfx, e)
	return
}

func merkleLeaf(e *sunlight.LogEntry) (out []byte, pan string) {
	defer func() { pan = panicString(recover()) }()
	out = e.MerkleTreeLeaf()
	return
}

type decRes struct {
	ok       bool
	e        *sunlight.LogEntry
	rest     []byte
	pan      string
	strictOK bool
	same     bool
}

func readLeaf(in []byte) (d decRes) {
	func() {
		defer func() { d.pan = panicString(recover()) }()
		e, rest, err := sunlight.ReadTileLeafMaybeArchival(in)
		d.ok, d.e, d.rest = err == nil, e, rest
	}()
	if d.pan != "" {
		return
	}
	func() {
		defer func() { d.pan = panicString(recover()) }()
		e, rest, err := sunlight.ReadTileLeaf(in)
		d.strictOK = err == nil
		// the two readers return the same entry and remainder when both succeed
		d.same = err != nil || (d.ok && reflect.DeepEqual(e, d.e) && bytes.Equal(rest, d.rest))
	}()
	return
}

func decFields(m map[string]any, in []byte, d decRes) {
	m["ok"] = d.ok
	m["strict_ok"] = d.strictOK
	m["strict_same"] = d.same
	m["panic"] = d.pan
	if d.ok && d.pan == "" {
		m["e"] = EntryToJ(d.e)
		m["n"] = len(in) - len(d.rest)
		m["rest_suffix"] = len(d.rest) <= len(in) && bytes.Equal(in[len(in)-len(d.rest):], d.rest)
	}
}

// Enc replays a model case (entry, prefix) through AppendTileLeaf,
// MerkleTreeLeaf and back through the readers.
func (r *Rec) Enc(id int, src string, ej EntryJ, pfx, tail []byte) {
	e := EntryFromJ(ej)
	m := map[string]any{"k": "enc", "id": id, "src": src, "e": ej, "pfx": ToRL(pfx), "tail": ToRL(tail)}
	out, pan := appendLeaf(append([]byte{}, pfx...), e)
	m["refused"] = pan != ""
	m["refusal"] = pan
	if pan == "" {
		m["enc"] = ToRL(out)
	}
	leaf, lpan := merkleLeaf(e)
	m["leaf_refused"] = lpan != ""
	if lpan == "" {
		m["leaf"] = ToRL(leaf)
	}
	if pan == "" && len(out) >= len(pfx) {
		in := append(append([]byte{}, out[len(pfx):]...), tail...)
		d := readLeaf(in)
		b := map[string]any{}
		decFields(b, in, d)
		m["back"] = b
	}
	r.emit(m)
}

// Dec records what the readers make of a byte string, and what the encoder
// makes of the entry they returned.
func (r *Rec) Dec(id int, src string, in []byte) {
	m := map[string]any{"k": "dec", "id": id, "src": src, "in": ToRL(in)}
	d := readLeaf(in)
	decFields(m, in, d)
	if d.ok && d.pan == "" {
		re, pan := appendLeaf(nil, d.e)
		m["reenc_refused"] = pan != ""
		if pan == "" {
			m["reenc"] = ToRL(re)
		}
		leaf, lpan := merkleLeaf(d.e)
		m["leaf_refused"] = lpan != ""
		if lpan == "" {
			m["leaf"] = ToRL(leaf)
		}
	}
	r.emit(m)
}

func marshalExt(idx int64) (out []byte, err error, pan string) {
	defer func() { pan = panicString(recover()) }()
	out, err = sunlight.MarshalExtensions(sunlight.Extensions{LeafIndex: idx})
	return
}

func parseExt(in []byte) (ext sunlight.Extensions, err error, pan string) {
	defer func() { pan = panicString(recover()) }()
	ext, err = sunlight.ParseExtensions(in)
	return
}

func (r *Rec) ExtM(id int, src string, idx Limbs) {
	m := map[string]any{"k": "extm", "id": id, "src": src, "idx": idx}
	out, err, pan := marshalExt(int64(idx.Uint64()))
	m["ok"] = err == nil && pan == ""
	m["panic"] = pan
	if err == nil && pan == "" {
		m["out"] = ToRL(out)
		ext, err, pan := parseExt(out)
		m["back_ok"] = err == nil && pan == ""
		m["back_idx"] = ToLimbs(uint64(ext.LeafIndex))
	}
	r.emit(m)
}

func (r *Rec) ExtP(id int, src string, in []byte) {
	m := map[string]any{"k": "extp", "id": id, "src": src, "in": ToRL(in)}
	ext, err, pan := parseExt(in)
	m["ok"] = err == nil && pan == ""
	m["panic"] = pan
	m["idx"] = ToLimbs(uint64(ext.LeafIndex))
	r.emit(m)
}

// TileJ is a tlog.Tile in the representation of Codec.tla.
type TileJ struct {
	L Limbs `json:"l"`
	N Limbs `json:"n"`
	W int   `json:"w"`
	H int   `json:"h"`
}

func clampInt(v int) int {
	if v < -1 || v > 1<<20 {
		return -1
	}
	return v
}

func TileToJ(t tlog.Tile) TileJ {
	return TileJ{L: ToLimbs(uint64(int64(t.L))), N: ToLimbs(uint64(t.N)), W: clampInt(t.W), H: clampInt(t.H)}
}

func tilePath(t tlog.Tile) (p string, pan string) {
	defer func() { pan = panicString(recover()) }()
	p = sunlight.TilePath(t)
	return
}

func parseTilePath(p string) (t tlog.Tile, err error, pan string) {
	defer func() { pan = panicString(recover()) }()
	t, err = sunlight.ParseTilePath(p)
	return
}

func (r *Rec) TP(id int, src string, tj TileJ) {
	t := tlog.Tile{H: 8, L: int(int64(tj.L.Uint64())), N: int64(tj.N.Uint64()), W: tj.W}
	m := map[string]any{"k": "tp", "id": id, "src": src, "t": tj}
	p, pan := tilePath(t)
	m["panic"] = pan
	if pan == "" {
		m["path"] = Codes(p)
		bt, err, pan := parseTilePath(p)
		m["back_ok"] = err == nil && pan == ""
		m["back"] = TileToJ(bt)
	}
	r.emit(m)
}

func (r *Rec) PP(id int, src string, p string) {
	m := map[string]any{"k": "pp", "id": id, "src": src, "in": Codes(p)}
	t, err, pan := parseTilePath(p)
	m["ok"] = err == nil && pan == ""
	m["panic"] = pan
	if err == nil && pan == "" {
		m["t"] = TileToJ(t)
		again, pan := tilePath(t)
		m["again_panic"] = pan
		m["again"] = Codes(again)
	}
	r.emit(m)
}

// ---------------------------------------------------------------------------
// Direction (ii): byte strings made by the harness.

func fp(b byte) (f [32]byte) {
	for i := range f {
		f[i] = b
	}
	return
}

// BaseEntries are small valid entries whose encodings are mutated.
func BaseEntries(thorough bool) []*sunlight.LogEntry {
	es := []*sunlight.LogEntry{
		{Timestamp: 1, Certificate: []byte{0xAA}, LeafIndex: 5},
		{Timestamp: 0x018BCFE56800, Certificate: []byte{0x30, 0x82, 0x01}, LeafIndex: 1<<40 - 1,
			ChainFingerprints: [][32]byte{fp(0x11)}},
		{Timestamp: 2, Certificate: []byte{1, 2}, RFC6962ArchivalLeaf: true,
			ChainFingerprints: [][32]byte{fp(0x11), fp(0x22)}},
		{Timestamp: 0x0102030405060708, IsPrecert: true, IssuerKeyHash: fp(0x77), Certificate: []byte{0xBB, 0xCC},
			PreCertificate: []byte{0xDD, 0xEE, 0xFF}, LeafIndex: 256, ChainFingerprints: [][32]byte{fp(0x33)}},
		{Timestamp: 3, IsPrecert: true, IssuerKeyHash: fp(0), Certificate: []byte{9}, PreCertificate: []byte{8},
			RFC6962ArchivalLeaf: true},
		{Timestamp: 1<<63 - 1, IsPrecert: true, IssuerKeyHash: fp(0xFF), LeafIndex: 0,
			ChainFingerprints: [][32]byte{fp(1), fp(2), fp(3)}},
	}
	if thorough {
		es = append(es,
			&sunlight.LogEntry{Timestamp: 0, Certificate: bytes.Repeat([]byte{0}, 40), LeafIndex: 0x0102030405},
			&sunlight.LogEntry{Timestamp: 4, Certificate: []byte{}, LeafIndex: 65536, ChainFingerprints: [][32]byte{fp(0), fp(0)}},
			&sunlight.LogEntry{Timestamp: 5, IsPrecert: true, IssuerKeyHash: fp(5), Certificate: bytes.Repeat([]byte{7}, 20),
				PreCertificate: bytes.Repeat([]byte{6}, 20), LeafIndex: 1, ChainFingerprints: [][32]byte{fp(0xFE)}},
			&sunlight.LogEntry{Timestamp: 6, IsPrecert: true, IssuerKeyHash: fp(6), Certificate: []byte{1},
				PreCertificate: []byte{}, LeafIndex: 1 << 32},
		)
	}
	return es
}

func mutValues(b byte, thorough bool) []byte {
	c := []byte{b ^ 0x01, b ^ 0x80}
	if thorough {
		for _, v := range []byte{b + 1, b - 1, 0x00, 0xFF, b ^ 0x20} {
			dup := v == b
			for _, x := range c {
				dup = dup || x == v
			}
			if !dup {
				c = append(c, v)
			}
		}
	}
	return c
}

// Mutations of one valid string: every single-byte change, every truncation,
// extensions, and (thorough) every single-byte deletion and insertion.
func Mutations(valid []byte, thorough bool, each func(kind string, s []byte)) {
	each("valid", valid)
	for i := range valid {
		for _, v := range mutValues(valid[i], thorough) {
			s := append([]byte{}, valid...)
			s[i] = v
			each("byte", s)
		}
	}
	for n := 0; n < len(valid); n++ {
		each("trunc", valid[:n])
	}
	for _, ext := range [][]byte{{0}, {0xFF, 0xFF, 0xFF}, valid} {
		each("extend", append(append([]byte{}, valid...), ext...))
	}
	step := 1
	if !thorough {
		step = 3
	}
	for i := 0; i < len(valid); i += step {
		each("delete", append(append([]byte{}, valid[:i]...), valid[i+1:]...))
		ins := append(append([]byte{}, valid[:i]...), valid[i])
		each("insert", append(ins, valid[i:]...))
	}
}

func u16(n int) []byte { return []byte{byte(n >> 8), byte(n)} }
func u24(n int) []byte { return []byte{byte(n >> 16), byte(n >> 8), byte(n)} }
func cat(parts ...[]byte) []byte {
	var b []byte
	for _, p := range parts {
		b = append(b, p...)
	}
	return b
}

func extData(typ byte, data []byte) []byte { return cat([]byte{typ}, u16(len(data)), data) }

// ExtVariants are CTExtensions contents around the leaf_index extension:
// the valid one and structural deviations from it.
func ExtVariants() [][]byte {
	idx := []byte{0, 0, 0, 1, 2}
	good := extData(0, idx)
	return [][]byte{
		good,
		{},
		extData(1, idx),                       // another extension type
		extData(255, idx),                     //
		extData(0, idx[:4]),                   // 4-byte index
		extData(0, append(idx[:5:5], 9)),      // 6-byte extension_data
		extData(0, nil),                       // empty extension_data
		cat(good, []byte{0}),                  // a byte behind the extension
		cat(good, good),                       // two leaf_index extensions
		cat(good, extData(7, []byte{1})),      // leaf_index, then an unknown extension
		cat(extData(7, []byte{1}), good),      // an unknown extension, then leaf_index
		cat(extData(7, nil), extData(0, idx)), //
		cat([]byte{0}, u16(6), idx),           // extension_data length beyond the data
		cat([]byte{0}, u16(4), idx),           // extension_data length short of the data
		{0}, {0, 0}, {0, 0, 5},
	}
}

// Deviants are tile leaves assembled field by field with one structural
// deviation each (and the undeviated assembly).
func Deviants(each func(kind string, s []byte)) {
	ts := []byte{0, 0, 0, 0, 0, 0, 0, 9}
	ikh := bytes.Repeat([]byte{0x77}, 32)
	cert := []byte{0xC1, 0xC2}
	prec := []byte{0xD1}
	f1 := bytes.Repeat([]byte{0x11}, 32)
	good := ExtVariants()[0]
	build := func(pre bool, ts, typ, certField, extField, precField, fpField []byte) []byte {
		b := cat(ts, typ)
		if pre {
			b = cat(b, ikh)
		}
		b = cat(b, certField, extField)
		if pre {
			b = cat(b, precField)
		}
		return cat(b, fpField)
	}
	lp16 := func(b []byte) []byte { return cat(u16(len(b)), b) }
	lp24 := func(b []byte) []byte { return cat(u24(len(b)), b) }
	for _, pre := range []bool{false, true} {
		typ := u16(0)
		if pre {
			typ = u16(1)
		}
		b := func(tsv, typv, c, x, p, f []byte) []byte { return build(pre, tsv, typv, c, x, p, f) }
		each("assembled", b(ts, typ, lp24(cert), lp16(good), lp24(prec), lp16(f1)))
		for _, x := range ExtVariants() {
			each("ext", b(ts, typ, lp24(cert), lp16(x), lp24(prec), lp16(f1)))
			each("ext", b(ts, typ, lp24(cert), lp16(x), lp24(prec), lp16(nil)))
		}
		// outer extensions length off by one in both directions
		each("extlen", b(ts, typ, lp24(cert), cat(u16(len(good)-1), good), lp24(prec), lp16(f1)))
		each("extlen", b(ts, typ, lp24(cert), cat(u16(len(good)+1), good), lp24(prec), lp16(f1)))
		for _, n := range []int{1, 31, 33, 63, 65, 80} {
			each("fps", b(ts, typ, lp24(cert), lp16(good), lp24(prec), lp16(bytes.Repeat([]byte{0x11}, n))))
		}
		each("fpslen", b(ts, typ, lp24(cert), lp16(good), lp24(prec), cat(u16(33), f1)))
		each("fpslen", b(ts, typ, lp24(cert), lp16(good), lp24(prec), cat(u16(31), f1)))
		for _, tsv := range [][]byte{
			{0x7F, 0xFF, 0xFF, 0xFF, 0xFF, 0xFF, 0xFF, 0xFF}, {0x80, 0, 0, 0, 0, 0, 0, 0},
			{0xFF, 0xFF, 0xFF, 0xFF, 0xFF, 0xFF, 0xFF, 0xFF}, {0x80, 0, 0, 0, 0, 0, 0, 1}} {
			each("ts", b(tsv, typ, lp24(cert), lp16(good), lp24(prec), lp16(f1)))
		}
		for _, tv := range [][]byte{{0, 2}, {1, 0}, {1, 1}, {0xFF, 0xFF}} {
			each("type", b(ts, tv, lp24(cert), lp16(good), lp24(prec), lp16(f1)))
		}
		each("certlen", b(ts, typ, cat(u24(len(cert)+1), cert), lp16(good), lp24(prec), lp16(f1)))
		each("certlen", b(ts, typ, cat(u24(len(cert)-1), cert), lp16(good), lp24(prec), lp16(f1)))
		each("certlen", b(ts, typ, cat(u24(1<<24-1), cert), lp16(good), lp24(prec), lp16(f1)))
		each("preclen", b(ts, typ, lp24(cert), lp16(good), cat(u24(len(prec)+1), prec), lp16(f1)))
		each("preclen", b(ts, typ, lp24(cert), lp16(good), cat(u24(0)), lp16(f1)))
	}
}

// RandomLeaves are seeded random strings: uniformly random ones, and valid
// encodings of random small entries with a few random bytes changed.
func RandomLeaves(rng *rand.Rand, n int, each func(kind string, s []byte)) {
	for i := 0; i < n; i++ {
		switch i % 3 {
		case 0:
			s := make([]byte, rng.Intn(70))
			rng.Read(s)
			if len(s) >= 10 && rng.Intn(4) > 0 { // a plausible head so that the rest is looked at
				s[0] &= 0x7F
				s[8], s[9] = 0, byte(rng.Intn(2))
			}
			each("random", s)
		default:
			e := &sunlight.LogEntry{Timestamp: rng.Int63(), IsPrecert: rng.Intn(2) == 0}
			if rng.Intn(3) == 0 {
				e.Timestamp = int64(rng.Intn(3))
			}
			e.Certificate = make([]byte, rng.Intn(6))
			rng.Read(e.Certificate)
			if e.IsPrecert {
				e.IssuerKeyHash = fp(byte(rng.Intn(256)))
				e.PreCertificate = make([]byte, rng.Intn(6))
				rng.Read(e.PreCertificate)
			}
			if rng.Intn(4) == 0 {
				e.RFC6962ArchivalLeaf = true
			} else {
				e.LeafIndex = rng.Int63n(1 << 40)
				if rng.Intn(2) == 0 {
					e.LeafIndex = int64(rng.Intn(300))
				}
			}
			for k := rng.Intn(3); k > 0; k-- {
				e.ChainFingerprints = append(e.ChainFingerprints, fp(byte(rng.Intn(256))))
			}
			s, pan := appendLeaf(nil, e)
			if pan != "" {
				continue
			}
			if i%3 == 2 {
				for k := 1 + rng.Intn(3); k > 0 && len(s) > 0; k-- {
					s[rng.Intn(len(s))] = byte(rng.Intn(256))
				}
				each("random-mutated", s)
			} else {
				each("random-valid", s)
			}
		}
	}
}

func limbsBytes40(v uint64) []byte {
	var b [8]byte
	binary.BigEndian.PutUint64(b[:], v)
	return b[3:]
}

// ExtStrings are inputs for ParseExtensions.
func ExtStrings(rng *rand.Rand, thorough bool, nrand int, each func(kind string, s []byte)) {
	for _, v := range []uint64{0, 1, 0x0102030405, 1<<40 - 1} {
		Mutations(extData(0, limbsBytes40(v)), thorough, each)
	}
	for _, x := range ExtVariants() {
		each("variant", x)
	}
	Mutations(cat(extData(9, []byte{1, 2}), extData(0, limbsBytes40(77))), thorough, each)
	for i := 0; i < nrand; i++ {
		var s []byte
		for k := rng.Intn(4); k >= 0; k-- {
			d := make([]byte, rng.Intn(8))
			rng.Read(d)
			typ := byte(rng.Intn(3))
			if rng.Intn(3) == 0 {
				typ = byte(rng.Intn(256))
			}
			s = cat(s, extData(typ, d))
		}
		if rng.Intn(3) == 0 && len(s) > 0 {
			s[rng.Intn(len(s))] = byte(rng.Intn(256))
		}
		if rng.Intn(5) == 0 {
			s = s[:rng.Intn(len(s)+1)]
		}
		each("random", s)
	}
}

// PathStrings are inputs for ParseTilePath.
func PathStrings(rng *rand.Rand, thorough bool, nrand int, each func(kind string, s string)) {
	var valid []string
	for _, l := range []int{0, 1, 63, -1, -2} {
		for _, n := range []int64{0, 5, 999, 1000, 1234067} {
			for _, w := range []int{256, 1, 255} {
				if !thorough && (n == 5 || n == 999) && w != 256 {
					continue
				}
				p, pan := tilePath(tlog.Tile{H: 8, L: l, N: n, W: w})
				if pan == "" {
					valid = append(valid, p)
				}
			}
		}
	}
	alphabet := []byte("09x/.X")
	if thorough {
		alphabet = []byte("0129x/.pa X+-d\x00\xff")
	}
	for vi, p := range valid {
		each("valid", p)
		if !thorough && vi%7 != 0 {
			continue
		}
		for i := 0; i < len(p); i++ {
			for _, c := range alphabet {
				if c != p[i] {
					each("char", p[:i]+string(c)+p[i+1:])
				}
			}
			each("delete", p[:i]+p[i+1:])
			each("trunc", p[:i])
			for _, c := range []byte("0/x") {
				if thorough || c != 'x' {
					each("insert", p[:i]+string(c)+p[i:])
				}
			}
		}
		each("extend", p+"/")
		each("extend", p+"0")
		each("extend", p+".p/1")
	}
	for _, p := range []string{
		"", "tile", "tile/", "tile/0", "tile/0/", "tile//000", "/tile/0/000", "tile/0/000/", "names/000",
		"tile/names", "tile/names/", "tile/data", "tile/8/0/000", "tile/8/data/000", "tile/0/000.p/256",
		"tile/0/000.p/0", "tile/0/000.p/257", "tile/0/000.p/01", "tile/0/000.p/+1", "tile/0/000.p/-1",
		"tile/0/000.p", "tile/0/000.p/", "tile/0/000.p/1/", "tile/0/000.p/1.p/1", "tile/0/x000/000",
		"tile/0/x000/x000/001", "tile/0/0", "tile/0/00", "tile/0/0000", "tile/0/x001/x000", "tile/0/001/000",
		"tile/0/x01/000", "tile/0/X001/000", "tile/0/x001/000", "tile/0/x001/x002/003", "tile/00/000",
		"tile/01/000", "tile/+1/000", "tile/-1/000", "tile/-2/000", "tile/-0/000", "tile/64/000",
		"tile/100/000", "tile/4294967296/000", "tile/9223372036854775807/000", "tile/99999999999999999999/000",
		"tile/data/000.p/255", "tile/data/000.p/256", "tile/names/x001/000", "tile/names/000.p/1",
		"tile/names/data/000", "tile/data/names/000", "tile/names/8/000", "tile/names/names/000",
		"tile/data/data/000", "tile/Data/000", "tile/names/0/000", "TILE/0/000", "tile/0/000\n", " tile/0/000",
		"tile/0/x009/x223/x372/x036/x854/x775/807", "tile/0/x009/x223/x372/x036/x854/x775/808",
		"tile/0/x018/x446/x744/x073/x709/x551/615", "tile/0/x018/x446/x744/x073/x709/x551/616",
		"tile/0/x999/x999/x999/x999/x999/x999/x999/999", "tile/63/x001/000.p/128", "tile/0/000.p/9",
		"tile/0/000.p/10", "tile/0/000.p/99", "tile/0/000.p/100", "tile/0/000.p/1000",
	} {
		each("crafted", p)
	}
	chars := []byte("tile/data/names/0123456789x.p")
	for i := 0; i < nrand; i++ {
		if i%2 == 0 {
			b := make([]byte, rng.Intn(24))
			for k := range b {
				b[k] = chars[rng.Intn(len(chars))]
			}
			each("random", string(b))
			continue
		}
		// random assembly from path pieces
		p := []string{"tile/", "tile/", "tile/", "til/", ""}[rng.Intn(5)]
		p += []string{"0", "1", "7", "63", "64", "data", "names", "00", ""}[rng.Intn(9)] + "/"
		for k := rng.Intn(4); k > 0; k-- {
			p += []string{"x", "x", "x", ""}[rng.Intn(4)] + []string{"000", "001", "999", "12", "0000"}[rng.Intn(5)] + "/"
		}
		p += []string{"000", "001", "255", "999", "1", "x000"}[rng.Intn(6)]
		p += []string{"", "", ".p/1", ".p/255", ".p/256", ".p/0", ".p/", ".p"}[rng.Intn(8)]
		each("random-assembled", p)
	}
}
