------------------------- MODULE SkylightRoutesTrace -------------------------
(***************************************************************************)
(* Trace validation for C19: every (request, response) pair recorded from  *)
(* the real skylight binary is checked by TLC against the reference        *)
(* function of SkylightRoutes.tla.  One scenario per directory shape       *)
(* (Setup record: the configuration and the inventory of regular files of  *)
(* every configured directory); Req records carry the abstract request of  *)
(* the plan and the projected response; the Client record says whether an  *)
(* unmodified sunlight.Client verified the whole real log through the      *)
(* server.                                                                 *)
(***************************************************************************)
EXTENDS SkylightRoutes

Trace == ndJsonDeserialize(IOEnv.VERIF_TRACE)

VARIABLES l,      \* next trace line
          sl,     \* line of the Setup record of the current scenario (0: none)
          seen,   \* number of Req records of the scenario
          viol    \* <<formula, line>>

tvars == <<l, sl, seen, viol>>

\* inventory of a scenario: set of <<root, rel>> of the regular files of the
\* configured directories (evaluated once per Setup line)
SetupLines == {i \in DOMAIN Trace : Trace[i].ev = "Setup"}
Inventory == TLCEval([i \in SetupLines |-> TLCEval({<<Trace[i].files[k].root, Trace[i].files[k].rel>> : k \in DOMAIN Trace[i].files})])

e == Trace[l]

AddV(old, names) == old \cup {<<nm, l>> : nm \in names}

TraceInit == /\ l = 1
             /\ sl = 0
             /\ seen = 0
             /\ viol = {}

Report == PrintT(<<"SCENARIO", "shape-" \o Trace[sl].shape, viol>>)

\* the configuration the harness ran is the one this specification describes
ConfigOf(P) == [id |-> P.id, kind |-> P.kind, host |-> P.host, pre |-> P.pre, root |-> P.root, sub |-> P.sub]
ConfigMatches(ps) == {ConfigOf(ps[i]) : i \in DOMAIN ps} = Pfxs

Setup ==
    /\ e.ev = "Setup"
    /\ (sl > 0 => Report)
    /\ sl' = l
    /\ seen' = 0
    /\ viol' = F("C19.HarnessConfig", ConfigMatches(e.prefixes)) \X {l}
    /\ l' = l + 1

Exists(root, rel) == <<root, rel>> \in Inventory[sl]

ReqStep ==
    /\ e.ev = "Req"
    /\ LET rq == [host |-> e.rq.host, method |-> e.rq.method, path |-> e.rq.path]
           v == Verdict(rq, e.rs, Exists)
                \cup F("C19.InPlan", rq \in Requests)
       IN viol' = AddV(viol, v)
    /\ seen' = seen + 1
    /\ UNCHANGED sl
    /\ l' = l + 1

ReqError ==
    /\ e.ev = "ReqError"
    /\ UNCHANGED <<sl, seen, viol>>
    /\ l' = l + 1

Client ==
    /\ e.ev = "Client"
    /\ viol' = AddV(viol, F("C19.ClientVerifiesLog", e.ok))
    /\ UNCHANGED <<sl, seen>>
    /\ l' = l + 1

End ==
    /\ e.ev = "End"
    /\ (sl > 0 => Report)
    /\ PrintT(<<"TRACE-END", l>>)
    /\ UNCHANGED <<sl, seen, viol>>
    /\ l' = l + 1

TraceNext == l <= Len(Trace) /\ (Setup \/ ReqStep \/ ReqError \/ Client \/ End)

TraceSpec == TraceInit /\ [][TraceNext]_tvars
=============================================================================
