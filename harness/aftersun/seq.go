package aftersun

import (
	"bytes"
	"context"
	"crypto/ecdsa"
	"crypto/x509"
	"encoding/json"
	"errors"
	"fmt"
	"io"
	"log/slog"
	"math/rand"
	"os"
	"os/exec"
	"path/filepath"
	"runtime/debug"
	"strings"
	"sync"
	"time"

	"filippo.io/mldsa"
	"filippo.io/sunlight"
	"filippo.io/sunlight/internal/ctlog"
	"github.com/prometheus/client_golang/prometheus"
)

var quiet = slog.New(slog.NewTextHandler(io.Discard, nil))

// memLock is a single-process compare-and-swap lock store whose content the
// harness can read and preset (C05 is about the real lock stores).
type memLock struct {
	mu   sync.Mutex
	m    map[[32]byte]*memCheckpoint
	fail bool // refuse the next Replace (the sequencer dies before the swap)
}

type memCheckpoint struct {
	id   [32]byte
	body []byte
}

func (c *memCheckpoint) Bytes() []byte { return c.body }

func newMemLock() *memLock { return &memLock{m: map[[32]byte]*memCheckpoint{}} }

func (b *memLock) Fetch(ctx context.Context, id [32]byte) (ctlog.LockedCheckpoint, error) {
	b.mu.Lock()
	defer b.mu.Unlock()
	c, ok := b.m[id]
	if !ok {
		return nil, ctlog.ErrLogNotFound
	}
	return c, nil
}

func (b *memLock) Replace(ctx context.Context, old ctlog.LockedCheckpoint, new []byte) (ctlog.LockedCheckpoint, error) {
	b.mu.Lock()
	defer b.mu.Unlock()
	if b.fail {
		b.fail = false
		return nil, errors.New("verif: injected lock failure")
	}
	o := old.(*memCheckpoint)
	if b.m[o.id] != o {
		return nil, errors.New("lock: checkpoint changed")
	}
	n := &memCheckpoint{o.id, append([]byte{}, new...)}
	b.m[o.id] = n
	return n, nil
}

func (b *memLock) Create(ctx context.Context, id [32]byte, new []byte) error {
	b.mu.Lock()
	defer b.mu.Unlock()
	if _, ok := b.m[id]; ok {
		return errors.New("lock: checkpoint exists")
	}
	b.m[id] = &memCheckpoint{id, append([]byte{}, new...)}
	return nil
}

// value returns the only checkpoint in the store.
func (b *memLock) value() []byte {
	b.mu.Lock()
	defer b.mu.Unlock()
	for _, c := range b.m {
		return append([]byte{}, c.body...)
	}
	return nil
}

// preset makes a lock store holding body for the log of key.
func presetLock(key *ecdsa.PrivateKey, body []byte) *memLock {
	l := newMemLock()
	id := logID(key)
	l.m[id] = &memCheckpoint{id, append([]byte{}, body...)}
	return l
}

// faultBackend is the real LocalBackend with uploads the harness can refuse
// (to leave the directory as a dying sequencer leaves it).
type faultBackend struct {
	*ctlog.LocalBackend
	mu     sync.Mutex
	refuse func(key string) bool
}

func (f *faultBackend) Upload(ctx context.Context, key string, data []byte, opts *ctlog.UploadOptions) error {
	f.mu.Lock()
	r := f.refuse
	f.mu.Unlock()
	if r != nil && r(key) {
		return errors.New("verif: injected upload failure")
	}
	return f.LocalBackend.Upload(ctx, key, data, opts)
}

func (f *faultBackend) Discard(ctx context.Context, key string) error {
	f.mu.Lock()
	r := f.refuse
	f.mu.Unlock()
	if r != nil && r("discard:"+key) {
		return errors.New("verif: injected discard failure")
	}
	return f.LocalBackend.Discard(ctx, key)
}

func (f *faultBackend) Metrics() []prometheus.Collector { return nil }

func (f *faultBackend) setRefuse(r func(string) bool) {
	f.mu.Lock()
	f.refuse = r
	f.mu.Unlock()
}

// LogID of the public key, as internal/ctlog computes it (RFC 6962 3.2).
func logID(key *ecdsa.PrivateKey) [32]byte {
	return sha256PKIX(key)
}

// Identity is what a log is to the sequencer besides its directory.
type Identity struct {
	Name string
	Key  *ecdsa.PrivateKey
	WKey *mldsa.PrivateKey
}

func NewIdentity(name string) *Identity {
	return &Identity{name, newKey(), must(mldsa.GenerateKey(mldsa.MLDSA44()))}
}

func (id *Identity) config(dir, cache string, lock ctlog.LockBackend) (*ctlog.Config, *faultBackend, error) {
	lb, err := ctlog.NewLocalBackend(context.Background(), dir, quiet)
	if err != nil {
		return nil, nil, err
	}
	be := &faultBackend{LocalBackend: lb}
	return &ctlog.Config{
		Name: id.Name, Key: id.Key, WitnessKey: id.WKey, Cache: cache,
		Backend: be, Lock: lock, Log: quiet,
		NotAfterStart: time.Now().AddDate(-1, 0, 0), NotAfterLimit: time.Now().AddDate(1, 0, 0),
	}, be, nil
}

// SeqLog is a log grown by the real sequencer on the real filesystem backend.
type SeqLog struct {
	ID      *Identity
	Dir     string
	scratch string
	Lock    *memLock
	be      *faultBackend
	cfg     *ctlog.Config
	L       *ctlog.Log
	Size    int64 // size of the lock-store checkpoint as far as the harness drove it
	ent     int
	loads   int
}

func NewSeqLog(dir, scratch, name string) (*SeqLog, error) {
	s := &SeqLog{ID: NewIdentity(name), Dir: dir, scratch: scratch, Lock: newMemLock()}
	if err := os.MkdirAll(dir, 0o755); err != nil {
		return nil, err
	}
	if err := os.MkdirAll(scratch, 0o755); err != nil {
		return nil, err
	}
	cfg, be, err := s.ID.config(dir, filepath.Join(scratch, "cache.db"), s.Lock)
	if err != nil {
		return nil, err
	}
	s.cfg, s.be = cfg, be
	if err := ctlog.CreateLog(context.Background(), cfg); err != nil {
		return nil, fmt.Errorf("CreateLog: %w", err)
	}
	if err := writeFile(filepath.Join(dir, "log.v3.json"), LogV3JSON(name, s.ID.Key), 0o644, false); err != nil {
		return nil, err
	}
	return s, s.Reload()
}

// Reload is a restart of the sequencer process: LoadLog.
func (s *SeqLog) Reload() error {
	if s.L != nil {
		s.L.CloseCache()
		s.L = nil
	}
	s.be.setRefuse(nil)
	l, err := ctlog.LoadLog(context.Background(), s.cfg)
	if err != nil {
		return fmt.Errorf("LoadLog: %w", err)
	}
	s.L = l
	s.loads++
	return nil
}

func (s *SeqLog) Close() {
	if s.L != nil {
		s.L.CloseCache()
		s.L = nil
	}
}

func addEntries(l *ctlog.Log, tag string, from, k int) []func(context.Context) (*sunlight.LogEntry, error) {
	var waits []func(context.Context) (*sunlight.LogEntry, error)
	for i := 0; i < k; i++ {
		e := &ctlog.PendingLogEntry{Certificate: []byte(fmt.Sprintf("cert-%s-%d", tag, from+i)), Issuers: [][]byte{[]byte("issuer-verif")}}
		w, _ := l.VerifAddLeafToPool(context.Background(), e, false)
		waits = append(waits, w)
	}
	return waits
}

// Round submits k new entries and runs one sequencing round.
func (s *SeqLog) Round(k int) error {
	waits := addEntries(s.L, "e", s.ent, k)
	s.ent += k
	if err := s.L.VerifSequence(context.Background()); err != nil {
		return fmt.Errorf("sequence: %w", err)
	}
	for _, w := range waits {
		if w == nil {
			return errors.New("entry refused")
		}
		if _, err := w(context.Background()); err != nil {
			return fmt.Errorf("entry not sequenced: %w", err)
		}
	}
	s.Size += int64(k)
	return nil
}

// DyingRound runs a round of k entries during which the sequencer "dies":
//
//	"cas"    before the compare-and-swap (the staging bundle is left behind)
//	"tiles"  after the swap, having uploaded a random subset of the tiles
//	"cp"     after the swap and all tiles, before publishing the checkpoint
//
// The directory and the lock store are then as the dead process left them;
// Reload restarts the log.
func (s *SeqLog) DyingRound(k int, how string, rng *rand.Rand) error {
	waits := addEntries(s.L, "e", s.ent, k)
	_ = waits
	s.ent += k
	switch how {
	case "cas":
		s.Lock.mu.Lock()
		s.Lock.fail = true
		s.Lock.mu.Unlock()
	case "tiles":
		p := 0.2 + 0.6*rng.Float64()
		var mu sync.Mutex
		decided := map[string]bool{}
		s.be.setRefuse(func(key string) bool {
			if !strings.HasPrefix(key, "tile/") && key != "checkpoint" {
				return false
			}
			mu.Lock()
			defer mu.Unlock()
			if _, ok := decided[key]; !ok {
				decided[key] = key == "checkpoint" || rng.Float64() < p
			}
			return decided[key]
		})
	case "cp":
		s.be.setRefuse(func(key string) bool { return key == "checkpoint" || strings.HasPrefix(key, "discard:") })
	default:
		return fmt.Errorf("unknown death %q", how)
	}
	before := ReadCP(s.Lock.value(), s.ID.Name, &s.ID.Key.PublicKey).N
	err := s.L.VerifSequence(context.Background())
	s.be.setRefuse(nil)
	// (a failure that is not fatal to the sequencer loop is reported to the
	// submitters only: sequence returns nil then)
	after := ReadCP(s.Lock.value(), s.ID.Name, &s.ID.Key.PublicKey).N
	pubBytes, _ := os.ReadFile(filepath.Join(s.Dir, "checkpoint"))
	pub := ReadCP(pubBytes, s.ID.Name, &s.ID.Key.PublicKey).N
	want := before + int64(k)
	if how == "cas" {
		want = before
	}
	if after != want || pub != before {
		return fmt.Errorf("dying round %q: lock %d -> %d (expected %d), published %d (expected %d), err %v", how, before, after, want, pub, before, err)
	}
	s.Size = after
	return nil
}

// RestartCheck is what "the server can still restart and sequence" means
// here: LoadLog on the directory with the given lock-store content (which
// applies the staging bundle if the lock store is ahead), three new entries,
// one sequencing round, all entries sequenced, and the checkpoint published
// afterwards is the lock store's.
func restartCheck(id *Identity, dir, scratch string, lockBody []byte, tag string) (err error) {
	defer func() {
		if r := recover(); r != nil {
			err = fmt.Errorf("panic: %v", r)
		}
	}()
	if err := os.MkdirAll(scratch, 0o755); err != nil {
		return err
	}
	cache := filepath.Join(scratch, "restart-"+tag+".db")
	os.Remove(cache)
	lock := presetLock(id.Key, lockBody)
	cfg, _, err := id.config(dir, cache, lock)
	if err != nil {
		return err
	}
	before := ReadCP(lockBody, id.Name, &id.Key.PublicKey)
	l, err := ctlog.LoadLog(context.Background(), cfg)
	if err != nil {
		return fmt.Errorf("LoadLog: %w", err)
	}
	defer l.CloseCache()
	waits := addEntries(l, "restart-"+tag, 0, 3)
	if err := l.VerifSequence(context.Background()); err != nil {
		return fmt.Errorf("sequence: %w", err)
	}
	for _, w := range waits {
		if w == nil {
			return errors.New("entry refused")
		}
		if _, err := w(context.Background()); err != nil {
			return fmt.Errorf("entry not sequenced: %w", err)
		}
	}
	pubBytes, err := os.ReadFile(filepath.Join(dir, "checkpoint"))
	if err != nil {
		return err
	}
	pub := ReadCP(pubBytes, id.Name, &id.Key.PublicKey)
	if !pub.SigOK || pub.N != before.N+3 {
		return fmt.Errorf("after the round the published checkpoint has size %d (signature ok: %v), expected %d", pub.N, pub.SigOK, before.N+3)
	}
	return nil
}

// restartSpec is what the child process of RestartCheck is given.
type restartSpec struct {
	Name    string
	Key     []byte // SEC 1 / PKCS#8 private key
	WSeed   []byte
	Dir     string
	Scratch string
	Lock    []byte
	Tag     string
}

// RestartCheck runs restartCheck in a process of its own (this test binary,
// TestRestartChild): LoadLog leaks its SQLite connections on its error paths
// and crawshaw.io/sqlite panics from a finalizer when such a connection is
// collected, which must not take the harness down.
func RestartCheck(id *Identity, dir, scratch string, lockBody []byte, tag string) error {
	if err := os.MkdirAll(scratch, 0o755); err != nil {
		return err
	}
	spec := restartSpec{id.Name, must(x509.MarshalPKCS8PrivateKey(id.Key)), id.WKey.Bytes(), dir, scratch, lockBody, tag}
	sp := filepath.Join(scratch, "restart-"+tag+".json")
	if err := os.WriteFile(sp, must(json.Marshal(spec)), 0o600); err != nil {
		return err
	}
	ctx, cancel := context.WithTimeout(context.Background(), 15*time.Minute)
	defer cancel()
	cmd := exec.CommandContext(ctx, os.Args[0], "-test.run", "^TestRestartChild$", "-test.v", "-test.timeout", "14m")
	cmd.Env = append(os.Environ(), "VERIF_RESTART_SPEC="+sp)
	out, _ := cmd.CombinedOutput()
	if ctx.Err() != nil {
		panic("restart check timed out")
	}
	if bytes.Contains(out, []byte("RESTART-OK")) {
		return nil
	}
	if i := bytes.Index(out, []byte("RESTART-FAIL: ")); i >= 0 {
		msg := out[i+len("RESTART-FAIL: "):]
		if j := bytes.IndexByte(msg, '\n'); j >= 0 {
			msg = msg[:j]
		}
		return errors.New(string(msg))
	}
	if len(out) > 600 {
		out = out[len(out)-600:]
	}
	// neither answer: the child itself failed (not a statement about the
	// directory); the episode is abandoned as a harness error
	panic(fmt.Sprintf("restart child died: %s", out))
}

// RestartChildMain is the body of TestRestartChild.
func RestartChildMain(specPath string) {
	debug.SetGCPercent(-1)
	var spec restartSpec
	check(json.Unmarshal(must(os.ReadFile(specPath)), &spec))
	k := must(x509.ParsePKCS8PrivateKey(spec.Key))
	id := &Identity{spec.Name, k.(*ecdsa.PrivateKey), must(mldsa.NewPrivateKey(mldsa.MLDSA44(), spec.WSeed))}
	if err := restartCheck(id, spec.Dir, spec.Scratch, spec.Lock, spec.Tag); err != nil {
		fmt.Printf("RESTART-FAIL: %s\n", strings.ReplaceAll(err.Error(), "\n", " "))
		return
	}
	fmt.Println("RESTART-OK")
}
